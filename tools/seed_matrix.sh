#!/bin/bash
# Runs the quick check of each seed's property against a scratch copy of /repo with the seed applied.
# Results: /verif/seeded/MATRIX.txt (one line per seed). Usage: seed_matrix.sh [seed-dir-names…]
S=/root/scratch/seedrun; V=/root/scratch/seedverif
mkdir -p $V; ln -sfn /verif/specs $V/specs; cp /verif/known_findings.jsonl $V/ 2>/dev/null
seeds="$@"; [ -z "$seeds" ] && seeds=$(ls /verif/seeded | grep -E '^C[0-9]+-[0-9]+$')
claimed=$(python3 -c "import json;print(' '.join(c['property_id'] for c in json.load(open('/verif/MANIFEST.json'))['checks']))")
for s in $seeds; do
  prop=${s%-*}
  if ! echo " $claimed " | grep -q " $prop "; then echo "$s property-not-claimed"; continue; fi
  rm -rf $S; mkdir -p $S; rsync -a --exclude .git /repo/ $S/
  if ! (cd $S && patch -p1 -s --dry-run < /verif/seeded/$s/patch.diff >/dev/null 2>&1); then echo "$s patch-does-not-apply-to-current-tree"; continue; fi
  (cd $S && patch -p1 -s < /verif/seeded/$s/patch.diff)
  out=$(timeout 1500 /verif/bin/dgv check -prop $prop -repo $S -verif $V 2>&1)
  viol=$(echo "$out" | grep -c '^VIOLATION')
  first=$(echo "$out" | grep '^VIOLATION' | head -2 | sed 's/.*replays\/[A-Z0-9]*\///' | tr '\n' ' ')
  echo "$s prop=$prop violations=$viol $first"
done
rm -rf $S
