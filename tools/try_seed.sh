#!/bin/bash
# usage: try_seed.sh <patch.diff> <prop> [more props…] — applies a seeded change to /repo, runs the quick checks, reverts.
set -u
patch=$1; shift
cd /repo || exit 2
if ! git apply --check "$patch" 2>/dev/null; then echo "patch does not apply"; exit 2; fi
git apply "$patch"
trap 'git -C /repo checkout -- . >/dev/null 2>&1' EXIT
for p in "$@"; do
  echo "== $p"
  timeout 900 /verif/bin/dgv check -prop "$p" 2>&1 | grep -v "^note:" | tail -6
done
