#!/bin/bash
# Runs the quick command of every claimed check against /repo and prints the summary lines.
for p in $(python3 -c "import json;print(' '.join(c['property_id'] for c in json.load(open('/verif/MANIFEST.json'))['checks']))"); do
  start=$(date +%s)
  out=$(timeout 3000 /verif/bin/dgv check -prop $p -tier ${1:-quick} 2>&1); rc=$?
  echo "[$p rc=$rc $(( $(date +%s) - start ))s] $(echo "$out" | grep -v '^note:' | tail -3 | tr '\n' '|' | cut -c1-400)"
done
