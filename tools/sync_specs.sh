#!/bin/sh
# Copies the contract mirror /verif/specs/<pkg>/contracts_verif.go into /repo/<pkg>/ and commits them
# there as a guarded hook commit (comment-only files behind the build tag `verif`).
set -e
cd /verif/specs
changed=""
for f in $(find . -name contracts_verif.go -not -path './ext/*'); do
  d=$(dirname "$f")
  if [ -d "/repo/$d" ]; then
    if ! cmp -s "$f" "/repo/$d/contracts_verif.go"; then
      cp "$f" "/repo/$d/contracts_verif.go"
      changed="$changed $d"
    fi
  fi
done
if [ -n "$changed" ]; then
  cd /repo && git add $(for d in $changed; do echo "$d/contracts_verif.go"; done) && git commit -q -m "verif: contracts (comment-only, //go:build verif) for$changed" && git log --oneline | head -1
else
  echo "specs already in sync"
fi
