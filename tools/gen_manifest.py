#!/usr/bin/env python3
"""Regenerates /verif/MANIFEST.json from /verif/tools/claims.json (kept small and explicit)."""
import json, subprocess, os
V = '/verif'
claims = json.load(open(V + '/tools/claims.json'))
props = [json.loads(l) for l in open(V + '/properties.jsonl')]
ids = [p['id'] for p in props]
hooks_commits = []
try:
    out = subprocess.run(['git', '-C', '/repo', 'log', '--format=%H %s'], capture_output=True, text=True).stdout
    for l in out.splitlines():
        h, s = l.split(' ', 1)
        if s.startswith('verif:'):
            hooks_commits.append(h)
except Exception:
    pass
checks = []
for pid in ids:
    c = claims['claims'].get(pid)
    if not c:
        continue
    checks.append({
        "property_id": pid,
        "quick_cmd": f"/verif/bin/dgv check -prop {pid} -tier quick",
        "thorough_cmd": f"/verif/bin/dgv check -prop {pid} -tier thorough",
        "evidence_file": f"/verif/evidence/{pid}.json",
        "replay_cmd_template": "/verif/bin/dgv replay {path}",
        "engine": "dgv",
        "level_claimed": {"category": "proof", "text": c['text'], "design_ref": c.get('design_ref', 'DESIGN.md §8 ' + pid)},
        "level_note": c['note'],
        "technique": c.get('technique', "contract-based deductive verification: weakest-precondition/symbolic-execution VCs over go/ssa of the real code, contracts as //@ comments, discharged by z3/cvc5"),
    })
na = []
for pid in ids:
    if pid in claims['claims']:
        continue
    na.append({"property_id": pid, "reason": claims['not_applicable'][pid]})
m = {
    "version": 1,
    "setup_cmd": "cd /verif/engine && GOFLAGS=-mod=vendor GOPROXY=off GOSUMDB=off GOTOOLCHAIN=local go build -o /verif/bin/dgv ./cmd/dgv",
    "hooks": {
        "guard": "verif",
        "enable": "go build tag `verif` (-tags=verif): makes the comment-only contracts_verif.go files visible; dgv loads /repo with it",
        "baseline_off_cmd": "for m in $(cat /w/out/gomods.txt); do MF=$(cd /repo/$m && . /w/out/goenv.sh && gomodflag); (cd /repo/$m && go test $MF -json -vet=off -count=1 -timeout 25m ./...); done",
        "source_commits": hooks_commits,
        "add_only": True,
    },
    "engines": [{"name": "dgv", "path": "/verif/engine", "serves_properties": sorted(claims['claims'].keys()),
                 "kind_free_text": "own deductive verifier for Go: VC generation by symbolic execution of go/ssa (typed-cells memory model, bit-vector arithmetic), Gobra-style contracts in comment-only files, obligations discharged by z3-new / cvc5 / z3"}],
    "checks": checks,
    "not_applicable": na,
    "notes": claims.get('notes', ''),
}
json.dump(m, open(V + '/MANIFEST.json', 'w'), indent=1)
print("checks:", [c['property_id'] for c in checks], "n/a:", [n['property_id'] for n in na])
