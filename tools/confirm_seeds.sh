#!/bin/bash
# Confirms every seeded change under /tmp/seed_out/<prop>/<k>: (1) patch applies to a scratch worktree at the
# pinned commit, (2) full existing suite passes with it, (3) the demonstration fails with it, (4) passes without.
# Writes /tmp/seed_out/<prop>/<k>/confirm.json. Usage: confirm_seeds.sh <prop>…
export GOFLAGS=-mod=mod GOPROXY=off GOSUMDB=off GOTOOLCHAIN=local
for prop in "$@"; do
  wt=/tmp/wt_$prop
  for d in /tmp/seed_out/$prop/[0-9]*; do
    [ -f $d/patch.diff ] || continue
    k=$(basename $d)
    git -C $wt checkout -q -- . ; git -C $wt clean -fdq
    pkgdir=$(head -3 $d/demo_test.go | grep -o '[a-z][a-z0-9_/]*/[a-z0-9_/]*\|thrift\|proto' | head -1)
    # package directory from the demo's package clause + comment
    pkgdir=$(python3 - "$d/demo_test.go" <<'PY'
import re,sys
t=open(sys.argv[1]).read()
m=re.search(r'(?:place[d]? in|directory|dir(?:ectory)?:?|package directory:?|in)\s+`?([\w/.-]*(?:thrift|proto|conv|internal)[\w/.-]*)`?', t.split('package ')[0])
print(m.group(1).strip('./').rstrip('/') if m else '')
PY
)
    res="{\"prop\":\"$prop\",\"k\":\"$k\",\"pkgdir\":\"$pkgdir\""
    if ! git -C $wt apply --check $d/patch.diff 2>/dev/null; then echo "$res,\"applies\":false}" > $d/confirm.json; continue; fi
    git -C $wt apply $d/patch.diff
    (cd $wt && go build ./... >/dev/null 2>&1); b=$?
    (cd $wt && go test -vet=off -count=1 ./... > $d/suite_with_patch.log 2>&1); s=$?
    cp $d/demo_test.go $wt/$pkgdir/zz_seed_demo_test.go
    (cd $wt && timeout 300 go test -vet=off -count=1 -timeout 120s -run . ./$pkgdir > $d/demo_with_patch.log 2>&1); dw=$?
    git -C $wt checkout -q -- .
    (cd $wt && timeout 300 go test -vet=off -count=1 -timeout 120s -run . ./$pkgdir > $d/demo_without_patch.log 2>&1); dn=$?
    rm -f $wt/$pkgdir/zz_seed_demo_test.go
    echo "$res,\"applies\":true,\"build\":$b,\"suite_exit_with_patch\":$s,\"demo_exit_with_patch\":$dw,\"demo_exit_without_patch\":$dn}" > $d/confirm.json
    cat $d/confirm.json
  done
done
