#!/bin/bash
# Confirms every seeded change under /tmp/seed_out/<prop>/<k>: (1) patch applies to a scratch worktree at the
# pinned commit, (2) full existing suite passes with it, (3) the demonstration fails with it, (4) passes without.
# Writes /tmp/seed_out/<prop>/<k>/confirm.json. Usage: confirm_seeds.sh <prop>…
export GOFLAGS=-mod=mod GOPROXY=off GOSUMDB=off GOTOOLCHAIN=local
for prop in "$@"; do
  wt=/tmp/wt_$prop
  for d in /tmp/seed_out/$prop/[0-9]*; do
    [ -f $d/patch.diff ] || continue
    k=$(basename $d)
    git -C $wt checkout -q -- . ; git -C $wt clean -fdq
    pkgdir=$(head -1 $d/demo_test.go | grep -oE '(thrift|proto|conv|internal)(/[a-z0-9_]+)*' | head -1)
    res="{\"prop\":\"$prop\",\"k\":\"$k\",\"pkgdir\":\"$pkgdir\""
    if ! git -C $wt apply --check $d/patch.diff 2>/dev/null; then echo "$res,\"applies\":false}" > $d/confirm.json; continue; fi
    git -C $wt apply $d/patch.diff
    (cd $wt && go build ./... >/dev/null 2>&1); b=$?
    if [ -f $d/suite_ok ]; then s=0; else (cd $wt && go test -vet=off -count=1 ./... > $d/suite_with_patch.log 2>&1); s=$?; [ $s = 0 ] && touch $d/suite_ok; fi
    cp $d/demo_test.go $wt/$pkgdir/zz_seed_demo_test.go
    (cd $wt && timeout 300 go test -vet=off -count=1 -timeout 120s -run . ./$pkgdir > $d/demo_with_patch.log 2>&1); dw=$?
    git -C $wt checkout -q -- .
    (cd $wt && timeout 300 go test -vet=off -count=1 -timeout 120s -run . ./$pkgdir > $d/demo_without_patch.log 2>&1); dn=$?
    rm -f $wt/$pkgdir/zz_seed_demo_test.go
    echo "$res,\"applies\":true,\"build\":$b,\"suite_exit_with_patch\":$s,\"demo_exit_with_patch\":$dw,\"demo_exit_without_patch\":$dn}" > $d/confirm.json
    cat $d/confirm.json
  done
done
