// Assumed contract of a standard-library function used by the converters (dgv; not part of the repository).
// strconv.AppendUint with base 10 appends the decimal digits of v: the appended bytes are an (uninterpreted)
// function of v, the prefix is kept, the result is dst grown in place or a fresh slice.
package strconv

//@ rec u64len(v uint64) int = u64len(v)
//@ rec u64dig(v uint64, k int) byte = u64dig(v, k)

//@ spec AppendUint
//@   trusted
//@   requires base: base == 10
//@   ensures len: len(r0) == len(dst) + u64len(i) && 1 <= u64len(i) && u64len(i) <= 20
//@   ensures prefix: forall j :: 0 <= j && j < len(dst) ==> r0[j] == old(dst[j])
//@   ensures digits: forall k :: 0 <= k && k < u64len(i) ==> r0[len(dst)+k] == u64dig(i, k)
//@   ensures mem: (same(r0, dst) && cap(r0) == cap(dst)) || fresh(r0)
//@   modifies dst[len(dst):cap(dst)]
