//go:build verif

// Contracts for internal/caching (dgv). Comment-only file.
// The two name-lookup structures are recursive heap structures built once by the IDL parsers; their
// well-formedness is not expressible as a flat type invariant, so their Get functions are NOT verified:
// they are assumed (trusted) to be read-only and total. Callers learn nothing about the returned pointer.
package caching

//@ spec (*HashMap).Get
//@   trusted

//@ spec (*TrieTree).Get
//@   trusted
