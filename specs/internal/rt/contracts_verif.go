//go:build verif

// Contracts for internal/rt (dgv). Comment-only file.
package rt

// Growslice forwards to the run-time's growslice (reflect.growslice by linkname): no Go body.
// TRUSTED: result is a new allocation holding the first old.Len bytes of the old one, capacity at
// least the requested one. Stated for element size 1 (callers pass their byteType).
//@ spec Growslice
//@   props C19 C20 C06
//@   trusted
//@   requires shape: 0 <= old.Len && old.Len <= old.Cap && old.Len <= cap
//@   ensures fresh(r0.Ptr) && r0.Len == old.Len && r0.Cap >= cap
//@   ensures bytes: forall i :: 0 <= i && i < old.Len ==> byteat(r0.Ptr, i) == byteat(old.Ptr, i)
