//go:build verif

// Contracts for package proto (dgv). Comment-only file.
// Descriptor graphs are built once by the IDL loader and never written afterwards. Their accessors are given
// contracts whose preconditions spell out the schema well-formedness they rely on (a LIST/MAP descriptor has an
// element descriptor that is itself neither LIST nor MAP; a MAP has a key descriptor). Callers either prove
// these or state them as `callsite … assumes` clauses, which the evidence lists as unchecked assumptions.
package proto

// Kind2Wire is a map literal that is never written after package initialisation (checked mechanically over
// the whole program); lookups in it are evaluated against the literal.
//@ global frozen Kind2Wire

// wtof: the wire type of a node type, as TypeToKind + Kind2Wire compute it (LIST has none: TypeToKind panics).
//@ pure wtof(t Type) WireType = ite(t == FLOAT || t == FIX32 || t == SFIX32, WireType(5), ite(t == DOUBLE || t == FIX64 || t == SFIX64, WireType(1), \
//@      ite(t == STRING || t == BYTE || t == MESSAGE || t == MAP, WireType(2), ite(t == GROUP, WireType(3), WireType(0)))))

//@ spec (*TypeDescriptor).IsPacked
//@   props C07 C06 C10
//@   requires wf: t != nil && (t.typ == LIST ==> t.elem != nil && t.elem.typ != LIST && t.elem.typ != MAP)
//@   ensures val: r0 <==> (t.typ == LIST && t.elem.typ != STRING && t.elem.typ != MESSAGE && t.elem.typ != BYTE)

//@ spec (*TypeDescriptor).WireType
//@   props C07 C06 C10
//@   requires wf: f != nil && f.typ != LIST
//@   ensures val: r0 == wtof(f.typ)
