//go:build verif

// Contracts for package proto (dgv). Comment-only file.
// Descriptor graphs are built once by the IDL loader and never written afterwards. Their accessors are given
// contracts whose preconditions spell out the schema well-formedness they rely on (a LIST/MAP descriptor has an
// element descriptor that is itself neither LIST nor MAP; a MAP has a key descriptor). Callers either prove
// these or state them as `callsite … assumes` clauses, which the evidence lists as unchecked assumptions.
package proto

//@ spec (*TypeDescriptor).IsPacked
//@   props C07 C06 C10
//@   requires wf: t != nil && (t.typ == LIST ==> t.elem != nil && t.elem.typ != LIST && t.elem.typ != MAP)
//@   ensures val: r0 <==> (t.typ == LIST && t.elem.typ != STRING && t.elem.typ != MESSAGE && t.elem.typ != BYTE)

// WireType goes through the Kind2Wire map (a Go map: its result is not interpreted).
//@ spec (*TypeDescriptor).WireType
//@   props C07 C06 C10
//@   requires wf: f != nil && f.typ != LIST
