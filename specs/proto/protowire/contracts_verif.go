//go:build verif

// Contracts for proto/protowire (dgv, see /verif/DESIGN.md §4). Comment-only file.
package protowire

//@ pure vsize(v uint64) int = ite(v < 1<<7, 1, ite(v < 1<<14, 2, ite(v < 1<<21, 3, ite(v < 1<<28, 4, ite(v < 1<<35, 5, \
//@      ite(v < 1<<42, 6, ite(v < 1<<49, 7, ite(v < 1<<56, 8, ite(v < 1<<63, 9, 10)))))))))
//@ pure venc(v uint64, k int) byte = ite(k+1 < vsize(v), byte(v >> uint64(7*k)) | 0x80, byte(v >> uint64(7*k)))

//@ spec AppendVarint
//@   props C20 C09 C10
//@   ensures len: len(r0) == len(b) + vsize(v)
//@   ensures prefix: forall i :: 0 <= i && i < len(b) ==> r0[i] == old(b[i])
//@   ensures enc: forall k :: 0 <= k && k < vsize(v) ==> r0[len(b)+k] == venc(v, k)
//@   ensures inplace: len(b) + vsize(v) <= cap(b) ==> same(r0, b)
//@   ensures grown: len(b) + vsize(v) > cap(b) ==> fresh(r0)
//@   modifies b[len(b):len(b)+vsize(v)]
