//go:build verif

// Contracts for thrift/generic (dgv, see /verif/DESIGN.md §4). Comment-only file.
// Position spec functions are written over thrift's size functions (tsz/fsz/esz/psz).
package generic

//@ global nonnil errNotFound

// ffind: offset of the value of the first field with the given id in the field list starting at o, or -1
//@ rec ffind(b []byte, o int, id thrift.FieldID) int = ite(o < 0 || o >= len(b), -1, ite(b[o] == 0, -1, \
//@      ite(thrift.be16(b, o+1) == uint16(id), o + 3, ffind(b, o + 3 + thrift.tsz(b, o+3, thrift.Type(b[o])), id))))

// searchFieldId: positions the cursor at the value of the first field carrying the id.
//@ spec searchFieldId
//@   props C01 C06 C04
//@   ensures mono: old(p.Read) <= p.Read
//@   ensures errtype: err != nil ==> dyntype(err, Node)
//@   ensures found: err == nil ==> start == p.Read && 3 <= start && tt == thrift.Type(p.Buf[start-3]) && thrift.be16(p.Buf, start-2) == uint16(id)
//@   ensures first: err == nil ==> start == ffind(p.Buf, old(p.Read), id)
//@   ensures absent: err != nil && tt == thrift.STRUCT ==> ffind(p.Buf, old(p.Read), id) == -1
//@   modifies p.Read
//@   loop 1
//@     invariant mono: old(p.Read) <= p.Read
//@     invariant scan: ffind(p.Buf, old(p.Read), id) == ffind(p.Buf, p.Read, id)
//@     unfold ffind(p.Buf, p.Read, id)
//@     decreases len(p.Buf) - p.Read

// eoff: offset of element k of a run of elements of type t starting at o
//@ rec eoff(b []byte, o int, t thrift.Type, k int) int = ite(k <= 0, o, eoff(b, o + thrift.tsz(b, o, t), t, k-1))

// searchIndex: positions the cursor at element `id` of the list/set whose header is at the cursor.
//@ spec searchIndex
//@   props C01 C06 C04
//@   ensures mono: old(p.Read) <= p.Read
//@   ensures errtype: err != nil ==> dyntype(err, Node)
//@   ensures found: err == nil ==> start == p.Read && tt == thrift.Type(p.Buf[old(p.Read)]) && id < int(int32(thrift.be32(p.Buf, old(p.Read)+1)))
//@   ensures pos: err == nil && id >= 0 ==> start == eoff(p.Buf, old(p.Read)+5, tt, id)
//@   ensures negative: id < 0 ==> err != nil
//@   modifies p.Read
//@   loop 1
//@     invariant mono: old(p.Read) + 5 <= p.Read
//@     invariant pos: eoff(p.Buf, old(p.Read)+5, et, id) == eoff(p.Buf, p.Read, et, id - i)
//@     unfold eoff(p.Buf, p.Read, et, id - i)

// koff: offset of the value of the first pair (of n) whose string key equals (kb, ko, kl) … expressed per kind below.
// searchStrKey / searchIntKey / searchBinKey: cursor at the value of the first pair whose key matches.
//@ spec searchStrKey
//@   props C01 C06 C04
//@   ensures mono: old(p.Read) <= p.Read
//@   ensures errtype: err != nil ==> dyntype(err, Node)
//@   ensures found: err == nil ==> start == p.Read && tt == thrift.Type(p.Buf[old(p.Read)+1]) && thrift.Type(p.Buf[old(p.Read)]) == thrift.STRING
//@   ensures key: err == nil ==> start >= old(p.Read) + 10 + len(id)
//@   modifies p.Read
//@   loop 1
//@     invariant mono: old(p.Read) + 6 <= p.Read && 0 <= i

//@ spec searchBinKey
//@   props C01 C06 C04
//@   ensures mono: old(p.Read) <= p.Read
//@   ensures errtype: err != nil ==> dyntype(err, Node)
//@   ensures found: err == nil ==> start == p.Read && tt == thrift.Type(p.Buf[old(p.Read)+1])
//@   modifies p.Read
//@   loop 1
//@     invariant mono: old(p.Read) + 6 <= p.Read && 0 <= i

// ikey: the integer key of width given by its type that ends at offset e, as the library presents it everywhere
// (i16/i32/i64 sign-extended; a BYTE key as 0..255)
//@ pure ikey(b []byte, e int, kt thrift.Type) int = ite(kt == 3, zx(b[e-1]), ite(kt == 6, sx(int16(thrift.be16(b, e-2))), \
//@      ite(kt == 8, sx(int32(thrift.be32(b, e-4))), int(thrift.be64(b, e-8)))))

//@ spec searchIntKey
//@   props C01 C06 C04
//@   ensures mono: old(p.Read) <= p.Read
//@   ensures errtype: err != nil ==> dyntype(err, Node)
//@   ensures found: err == nil ==> start == p.Read && tt == thrift.Type(p.Buf[old(p.Read)+1])
//@   ensures key: err == nil ==> ikey(p.Buf, start, thrift.Type(p.Buf[old(p.Read)])) == id
//@   modifies p.Read
//@   loop 1
//@     invariant mono: old(p.Read) + 6 <= p.Read && 0 <= i


// ---- nodes --------------------------------------------------------------------------------------------
// A non-error node is a window [v, v+l) of valid bytes.
// An error node made by errNode carries a pointer to a meta.Error (40 bytes) unless it is the "not found, last" marker.
// Container nodes cache their element/key type from the first header bytes.
//@ pure nmeta(t thrift.Type, et thrift.Type, kt thrift.Type, v unsafe.Pointer, l int) bool = \
//@      (((t == thrift.LIST || t == thrift.SET) && l >= 1) ==> et == thrift.Type(byteat(v, 0))) && \
//@      ((t == thrift.MAP && l >= 2) ==> kt == thrift.Type(byteat(v, 0)) && et == thrift.Type(byteat(v, 1)))
//@ typeinv Node as n = windowif(n.t != thrift.ERROR, n.v, n.l) && windowif(n.t == thrift.ERROR && n.et != 1 && n.v != nil, n.v, 40) && nmeta(n.t, n.et, n.kt, n.v, n.l)

//@ spec (Node).slice
//@   props C01 C06 C04
//@   requires span: self.t != thrift.ERROR && 0 <= s && s <= e && e <= self.l
//@   requires hdr: ((t == thrift.LIST || t == thrift.SET) ==> s + 1 <= e) && (t == thrift.MAP ==> s + 2 <= e)
//@   ensures win: r0.t == t && r0.l == e - s && samerg(r0.v, self.v) && offset(r0.v) == offset(self.v) + s
//@   ensures valid: windowif(true, r0.v, r0.l)
//@   ensures et: (t == thrift.LIST || t == thrift.SET) ==> r0.et == thrift.Type(byteat(self.v, s))
//@   ensures kt: t == thrift.MAP ==> r0.kt == thrift.Type(byteat(self.v, s)) && r0.et == thrift.Type(byteat(self.v, s+1))

// GetByPath: never panics; a non-error result is a window inside the receiver's window.
//@ spec (Node).GetByPath
//@   props C01 C06
//@   requires live: self.t != thrift.ERROR      // an error receiver is returned as is (its Error() text is never empty); not analysed
//@   ensures inside: r0.t != thrift.ERROR && len(pathes) > 0 ==> samerg(r0.v, self.v) && offset(r0.v) >= offset(self.v) && \
//@       offset(r0.v) + r0.l <= offset(self.v) + self.l && r0.l >= 0
//@   ensures valid: windowif(r0.t != thrift.ERROR, r0.v, r0.l)
//@   loop 1
//@     invariant buf: samerg(p.Buf, self.v) && offset(p.Buf) == offset(self.v) && len(p.Buf) == self.l && self.t != thrift.ERROR
//@     invariant cur: 0 <= p.Read && p.Read <= len(p.Buf) && 0 <= start && start <= p.Read

//@ typeinv *Node as n = n != nil && windowif(n.t != thrift.ERROR, n.v, n.l)

// replace: self's buffer becomes  self[0:l0] ++ n ++ self[l0+o.l:]  in a NEW allocation, where o is a window
// inside self starting at l0; the old buffer, o and n are left untouched.
//@ pure l0of(self *Node, o Node) int = offset(o.v) - offset(self.v)
//@ spec (*Node).replace
//@   props C04 C12
//@   requires live: self.t != thrift.ERROR && n.t != thrift.ERROR && o.t != thrift.ERROR
//@   requires inside: samerg(o.v, self.v) && offset(self.v) <= offset(o.v) && o.l >= 0 && o.l <= self.l && offset(o.v) + o.l <= offset(self.v) + self.l
//@   ensures mismatch: o.t != n.t ==> r0 != nil && self.l == old(self.l) && offset(self.v) == old(offset(self.v)) && samerg(self.v, old(self.v))
//@   ensures ok: o.t == n.t ==> r0 == nil && fresh(self.v) && self.l == old(self.l) - o.l + n.l
//@   ensures head: o.t == n.t ==> forall i :: 0 <= i && i < old(l0of(self, o)) ==> byteat(self.v, i) == old(byteat(self.v, i))
//@   ensures mid: o.t == n.t ==> forall i :: 0 <= i && i < n.l ==> byteat(self.v, old(l0of(self, o)) + i) == old(byteat(n.v, i))
//@   ensures tail: o.t == n.t ==> forall i :: 0 <= i && i < old(self.l) - old(l0of(self, o)) - o.l ==> \
//@       byteat(self.v, old(l0of(self, o)) + n.l + i) == old(byteat(o.v, o.l + i))
//@   modifies self.v, self.l

// Fork: same bytes in a new allocation.
//@ spec (Node).Fork
//@   props C04 C12
//@   requires live: self.t != thrift.ERROR
//@   ensures fresh: fresh(r0.v) && r0.l == self.l && r0.t == self.t && r0.et == self.et && r0.kt == self.kt
//@   ensures bytes: forall i :: 0 <= i && i < self.l ==> byteat(r0.v, i) == byteat(self.v, i)
//@   ensures valid: windowif(true, r0.v, r0.l)

// ---- iterators -------------------------------------------------------------------------------------------
//@ typeinv *structIterator as it = it != nil && 0 <= it.p.Read && it.p.Read <= len(it.p.Buf)
//@ typeinv structIterator as it = 0 <= it.p.Read && it.p.Read <= len(it.p.Buf)
//@ typeinv *listIterator as it = it != nil && 0 <= it.p.Read && it.p.Read <= len(it.p.Buf)
//@ typeinv listIterator as it = 0 <= it.p.Read && it.p.Read <= len(it.p.Buf)
//@ typeinv *mapIterator as it = it != nil && 0 <= it.p.Read && it.p.Read <= len(it.p.Buf)
//@ typeinv mapIterator as it = 0 <= it.p.Read && it.p.Read <= len(it.p.Buf)

// the iterator reads the node's own window
//@ template iter_over(fi)
//@   requires live: self.t != thrift.ERROR
//@   ensures buf: samerg(fi.p.Buf, self.v) && offset(fi.p.Buf) == offset(self.v) && len(fi.p.Buf) == self.l
//@   ensures cur: 0 <= fi.p.Read && fi.p.Read <= len(fi.p.Buf)
//@ end

//@ spec (Node).iterFields
//@   props C01 C06
//@   use iter_over(fi)
//@   ensures start: fi.Err == nil && fi.p.Read == 0

//@ spec (Node).iterElems
//@   props C01 C06
//@   use iter_over(fi)
//@   ensures hdr: fi.Err == nil ==> fi.p.Read == 5 && fi.k == 0 && fi.size >= 0 && fi.et == thrift.Type(byteat(self.v, 0))

//@ spec (Node).iterPairs
//@   props C01 C06
//@   use iter_over(fi)
//@   ensures hdr: fi.Err == nil ==> fi.p.Read == 6 && fi.i == 0 && fi.size >= 0 && fi.kt == thrift.Type(byteat(self.v, 0)) && fi.et == thrift.Type(byteat(self.v, 1))

//@ spec (structIterator).HasNext
//@   props C01 C06
//@   ensures r0 ==> it.Err == nil && it.p.Read < len(it.p.Buf)

//@ spec (listIterator).HasNext
//@   props C01 C06
//@   ensures r0 ==> it.Err == nil && it.p.Read < len(it.p.Buf) && it.k < it.size

//@ spec (mapIterator).HasNext
//@   props C01 C06
//@   ensures r0 ==> it.Err == nil && it.p.Read < len(it.p.Buf) && it.i < it.size

// Next: on success [start, end) is the value's span inside the buffer and the cursor sits at end
//@ spec (*structIterator).Next
//@   props C01 C06
//@   ensures mono: old(it.p.Read) <= it.p.Read && same(it.p.Buf, old(it.p.Buf)) && len(it.p.Buf) == old(len(it.p.Buf))
//@   ensures span: it.Err == nil && typ != 0 ==> start == old(it.p.Read) + 3 && start <= end && end == it.p.Read && end - start >= thrift.tmin(typ) && \
//@       typ == thrift.Type(it.p.Buf[old(it.p.Read)]) && id == thrift.FieldID(thrift.be16(it.p.Buf, old(it.p.Read)+1))
//@   ensures exact: it.Err == nil && typ != 0 ==> end == start + thrift.tsz(it.p.Buf, start, typ)
//@   ensures failed: old(it.Err) == nil && it.Err != nil ==> end == 0 && id == 0
//@   ensures stop: old(it.Err) == nil && it.Err == nil && typ == 0 ==> id == 0 && start == 0 && end == 0
//@   ensures progress: old(it.Err) == nil && it.Err == nil ==> it.p.Read > old(it.p.Read)
//@   modifies it.Err, it.p.Read

//@ spec (*listIterator).Next
//@   props C01 C06
//@   ensures mono: old(it.p.Read) <= it.p.Read && same(it.p.Buf, old(it.p.Buf)) && len(it.p.Buf) == old(len(it.p.Buf)) && it.et == old(it.et) && it.size == old(it.size)
//@   ensures span: old(it.Err) == nil && it.Err == nil ==> start == old(it.p.Read) && start <= end && end == it.p.Read && end - start >= thrift.tmin(it.et) && it.k == old(it.k) + 1
//@   ensures exact: old(it.Err) == nil && it.Err == nil ==> end == start + thrift.tsz(it.p.Buf, start, it.et)
//@   ensures failed: it.Err != nil ==> start == old(it.p.Read) && (old(it.Err) == nil ==> end == 0)
//@   modifies it.Err, it.p.Read, it.k

// ---- single-step accessors: never panic; a non-error result is a valid window inside the receiver ---------
//@ template accessor()
//@   requires live: self.t != thrift.ERROR && self.t != thrift.STOP
//@   ensures inside: v.t != thrift.ERROR ==> samerg(v.v, self.v) && offset(v.v) >= offset(self.v) && offset(v.v) + v.l <= offset(self.v) + self.l && v.l >= 0
//@   ensures valid: windowif(v.t != thrift.ERROR, v.v, v.l)
//@ end

//@ spec (Node).Field
//@   props C01 C06
//@   use accessor()
//@   loop 1
//@     invariant buf: samerg(it.p.Buf, self.v) && offset(it.p.Buf) == offset(self.v) && len(it.p.Buf) == self.l && 0 <= it.p.Read && it.p.Read <= len(it.p.Buf)
//@     decreases len(it.p.Buf) - it.p.Read

//@ spec (Node).Index
//@   props C01 C06
//@   use accessor()
//@   ensures negative: i < 0 ==> v.t == thrift.ERROR
//@   loop 1
//@     invariant buf: samerg(it.p.Buf, self.v) && offset(it.p.Buf) == offset(self.v) && len(it.p.Buf) == self.l && 0 <= it.p.Read && it.p.Read <= len(it.p.Buf) && it.et == self.et
//@     decreases i - j

//@ spec (Node).GetByStr
//@   props C01 C06
//@   use accessor()
//@   loop 1
//@     invariant buf: samerg(it.p.Buf, self.v) && offset(it.p.Buf) == offset(self.v) && len(it.p.Buf) == self.l && 0 <= it.p.Read && it.p.Read <= len(it.p.Buf) && it.et == self.et
//@     decreases len(it.p.Buf) - it.p.Read

//@ spec (Node).GetByInt
//@   props C01 C06
//@   use accessor()
//@   loop 1
//@     invariant buf: samerg(it.p.Buf, self.v) && offset(it.p.Buf) == offset(self.v) && len(it.p.Buf) == self.l && 0 <= it.p.Read && it.p.Read <= len(it.p.Buf) && it.et == self.et
//@     decreases len(it.p.Buf) - it.p.Read

//@ spec (Node).GetByRaw
//@   props C01 C06
//@   use accessor()
//@   loop 1
//@     invariant buf: samerg(it.p.Buf, self.v) && offset(it.p.Buf) == offset(self.v) && len(it.p.Buf) == self.l && 0 <= it.p.Read && it.p.Read <= len(it.p.Buf) && it.et == self.et
//@     decreases len(it.p.Buf) - it.p.Read

//@ spec (*mapIterator).NextStr
//@   props C01 C06
//@   ensures mono: old(it.p.Read) <= it.p.Read && same(it.p.Buf, old(it.p.Buf)) && len(it.p.Buf) == old(len(it.p.Buf)) && it.et == old(it.et) && it.kt == old(it.kt) && it.size == old(it.size)
//@   ensures span: old(it.Err) == nil && it.Err == nil ==> old(it.p.Read) + 4 <= start && start <= end && end == it.p.Read && end - start >= thrift.tmin(it.et) && it.i == old(it.i) + 1
//@   ensures failed: old(it.Err) == nil && it.Err != nil ==> end == 0
//@   modifies it.Err, it.p.Read, it.i

//@ spec (*mapIterator).NextInt
//@   props C01 C06
//@   ensures mono: old(it.p.Read) <= it.p.Read && same(it.p.Buf, old(it.p.Buf)) && len(it.p.Buf) == old(len(it.p.Buf)) && it.et == old(it.et) && it.kt == old(it.kt) && it.size == old(it.size)
//@   ensures span: old(it.Err) == nil && it.Err == nil ==> old(it.p.Read) + 1 <= start && start <= end && end == it.p.Read && end - start >= thrift.tmin(it.et) && it.i == old(it.i) + 1
//@   modifies it.Err, it.p.Read, it.i

//@ spec (*mapIterator).NextBin
//@   props C01 C06
//@   ensures progress: old(it.Err) == nil && it.Err == nil ==> it.p.Read > old(it.p.Read)
//@   ensures mono: old(it.p.Read) <= it.p.Read && same(it.p.Buf, old(it.p.Buf)) && len(it.p.Buf) == old(len(it.p.Buf)) && it.et == old(it.et) && it.kt == old(it.kt) && it.size == old(it.size)
//@   ensures span: old(it.Err) == nil && it.Err == nil ==> old(it.p.Read) <= start && start <= end && end == it.p.Read && end - start >= thrift.tmin(it.et) && it.i == old(it.i) + 1
//@   ensures failed: old(it.Err) == nil && it.Err != nil ==> end == 0
//@   modifies it.Err, it.p.Read, it.i
