package generic

import (
	"testing"

	"github.com/cloudwego/dynamicgo/proto"
	"github.com/cloudwego/dynamicgo/testdata/kitex_gen/pb/base"
	"github.com/cloudwego/dynamicgo/testdata/kitex_gen/pb/example3"
	goproto "google.golang.org/protobuf/proto"
)

func TestC07DomEmptySubmessage(t *testing.T) {
	desc := getExample3Desc()
	cases := map[string]func(r *example3.ExampleReq){
		"unchanged":              func(r *example3.ExampleReq) {},
		"empty nested message":   func(r *example3.ExampleReq) { r.InnerBase2.Base = &base.Base{} },
		"empty list element":     func(r *example3.ExampleReq) { r.InnerBase2.ListBase[1] = &base.Base{} },
		"empty message map value": func(r *example3.ExampleReq) { r.InnerBase2.MapStringBase["2"] = &base.Base{} },
		"empty string key/value": func(r *example3.ExampleReq) { r.InnerBase2.MapStringString = map[string]string{"": ""} },
		"empty inner":            func(r *example3.ExampleReq) { r.InnerBase2 = &example3.InnerBase2{} },
	}
	for name, edit := range cases {
		for _, recurse := range []bool{false, true} {
			req := getExample3Req()
			edit(req)
			data, err := goproto.Marshal(req)
			if err != nil {
				t.Fatal(err)
			}
			opts := &Options{}
			root := PathNode{Node: NewNode(proto.MESSAGE, data)}
			if err := root.Load(recurse, opts, desc); err != nil {
				t.Errorf("%s recurse=%v: Load: %v", name, recurse, err)
				continue
			}
			out, err := root.Marshal(opts)
			if err != nil {
				t.Errorf("%s recurse=%v: Marshal: %v", name, recurse, err)
				continue
			}
			var got example3.ExampleReq
			if err := goproto.Unmarshal(out, &got); err != nil {
				t.Errorf("%s recurse=%v: reference rejects: %v", name, recurse, err)
				continue
			}
			if !goproto.Equal(req, &got) {
				t.Errorf("%s recurse=%v: decodes to a different message", name, recurse)
			}
		}
	}
}
