// Place this file in package directory: thrift/generic  (package generic)
// go test -vet=off -run TestC05EmptyMapHash ./thrift/generic/
// Fails (three panics "integer divide by zero") before fix 8467006, passes after it.
package generic

import (
	"testing"

	"github.com/cloudwego/dynamicgo/thrift"
)

func TestC05EmptyMapHash(t *testing.T) {
	// empty map<string,i32>: kt=11 vt=8 size=0
	in := []byte{11, 8, 0, 0, 0, 0}
	for _, recurse := range []bool{false, true} {
		opts := &Options{StoreChildrenByHash: true}
		root := PathNode{Node: NewNode(thrift.MAP, in)}
		if err := root.Load(recurse, opts); err != nil {
			t.Fatal(err)
		}
		func() {
			defer func() {
				if r := recover(); r != nil {
					t.Errorf("GetByStr panicked: %v", r)
				}
			}()
			if v := root.GetByStr("a", opts); v != nil {
				t.Errorf("GetByStr on an empty map returned %v", v)
			}
		}()
		func() {
			defer func() {
				if r := recover(); r != nil {
					t.Errorf("SetByStr panicked: %v", r)
				}
			}()
			if _, err := root.SetByStr("a", NewNodeInt32(1), opts); err != nil {
				t.Errorf("SetByStr: %v", err)
			}
		}()
	}
	// empty map<i32,i32>
	in2 := []byte{8, 8, 0, 0, 0, 0}
	opts := &Options{StoreChildrenByHash: true}
	root := PathNode{Node: NewNode(thrift.MAP, in2)}
	if err := root.Load(true, opts); err != nil {
		t.Fatal(err)
	}
	func() {
		defer func() {
			if r := recover(); r != nil {
				t.Errorf("GetByInt panicked: %v", r)
			}
		}()
		if v := root.GetByInt(1, opts); v != nil {
			t.Errorf("GetByInt on an empty map returned %v", v)
		}
	}()
}
