package generic

import (
	"fmt"
	"strings"
	"testing"

	"github.com/cloudwego/dynamicgo/testdata/kitex_gen/pb/example3"
	goproto "google.golang.org/protobuf/proto"
)

type c10Case struct {
	name  string
	unset bool
	ps    []Path
	edit  func(r *example3.ExampleReq, val string)
}

func f(n string) Path { return NewPathFieldName(n) }

func TestC10EnclosingLengths(t *testing.T) {
	cases := []c10Case{
		{"map value replaced (first key)", false, []Path{f("InnerBase2"), f("MapStringString"), NewPathStrKey("m1")}, func(r *example3.ExampleReq, v string) { r.InnerBase2.MapStringString["m1"] = v }},
		{"map value replaced (other key)", false, []Path{f("InnerBase2"), f("MapStringString"), NewPathStrKey("m3")}, func(r *example3.ExampleReq, v string) { r.InnerBase2.MapStringString["m3"] = v }},
		{"map value inserted", false, []Path{f("InnerBase2"), f("MapStringString"), NewPathStrKey("zz")}, func(r *example3.ExampleReq, v string) { r.InnerBase2.MapStringString["zz"] = v }},
		{"int-key map value replaced", false, []Path{f("InnerBase2"), f("MapInt32String"), NewPathIntKey(3)}, func(r *example3.ExampleReq, v string) { r.InnerBase2.MapInt32String[3] = v }},
		{"field of a message map value (key 1)", false, []Path{f("InnerBase2"), f("MapInt64Base"), NewPathIntKey(1), f("LogID")}, func(r *example3.ExampleReq, v string) { r.InnerBase2.MapInt64Base[1].LogID = v }},
		{"field of a message map value (key 2)", false, []Path{f("InnerBase2"), f("MapInt64Base"), NewPathIntKey(2), f("LogID")}, func(r *example3.ExampleReq, v string) { r.InnerBase2.MapInt64Base[2].LogID = v }},
		{"field of a message map value (str key 2)", false, []Path{f("InnerBase2"), f("MapStringBase"), NewPathStrKey("2"), f("Caller")}, func(r *example3.ExampleReq, v string) { r.InnerBase2.MapStringBase["2"].Caller = v }},
		{"map in message map value", false, []Path{f("InnerBase2"), f("MapStringBase"), NewPathStrKey("2"), f("Extra"), NewPathStrKey("3a")}, func(r *example3.ExampleReq, v string) { r.InnerBase2.MapStringBase["2"].Extra["3a"] = v }},
		{"map in message map value, new key", false, []Path{f("InnerBase2"), f("MapStringBase"), NewPathStrKey("1"), f("Extra"), NewPathStrKey("new")}, func(r *example3.ExampleReq, v string) { r.InnerBase2.MapStringBase["1"].Extra["new"] = v }},
		{"string list element", false, []Path{f("InnerBase2"), f("ListString"), NewPathIndex(1)}, func(r *example3.ExampleReq, v string) { r.InnerBase2.ListString[1] = v }},
		{"field of message list element 0", false, []Path{f("InnerBase2"), f("ListBase"), NewPathIndex(0), f("LogID")}, func(r *example3.ExampleReq, v string) { r.InnerBase2.ListBase[0].LogID = v }},
		{"field of message list element 1", false, []Path{f("InnerBase2"), f("ListBase"), NewPathIndex(1), f("Addr")}, func(r *example3.ExampleReq, v string) { r.InnerBase2.ListBase[1].Addr = v }},
		{"nested message in list element", false, []Path{f("InnerBase2"), f("ListBase"), NewPathIndex(1), f("TrafficEnv"), f("Env")}, func(r *example3.ExampleReq, v string) { r.InnerBase2.ListBase[1].TrafficEnv.Env = v }},
		{"map in list element", false, []Path{f("InnerBase2"), f("ListBase"), NewPathIndex(1), f("Extra"), NewPathStrKey("2a")}, func(r *example3.ExampleReq, v string) { r.InnerBase2.ListBase[1].Extra["2a"] = v }},
		{"plain nested field", false, []Path{f("InnerBase2"), f("Base"), f("LogID")}, func(r *example3.ExampleReq, v string) { r.InnerBase2.Base.LogID = v }},
		{"map in nested message", false, []Path{f("InnerBase2"), f("Base"), f("Extra"), NewPathStrKey("1b")}, func(r *example3.ExampleReq, v string) { r.InnerBase2.Base.Extra["1b"] = v }},
		{"unset map entry", true, []Path{f("InnerBase2"), f("MapStringString"), NewPathStrKey("m3")}, func(r *example3.ExampleReq, v string) { delete(r.InnerBase2.MapStringString, "m3") }},
		{"unset message map entry", true, []Path{f("InnerBase2"), f("MapInt64Base"), NewPathIntKey(2)}, func(r *example3.ExampleReq, v string) { delete(r.InnerBase2.MapInt64Base, 2) }},
		{"unset field of message map value", true, []Path{f("InnerBase2"), f("MapInt64Base"), NewPathIntKey(2), f("LogID")}, func(r *example3.ExampleReq, v string) { r.InnerBase2.MapInt64Base[2].LogID = "" }},
		{"unset field of list element", true, []Path{f("InnerBase2"), f("ListBase"), NewPathIndex(1), f("LogID")}, func(r *example3.ExampleReq, v string) { r.InnerBase2.ListBase[1].LogID = "" }},
		{"unset list element", true, []Path{f("InnerBase2"), f("ListBase"), NewPathIndex(0)}, func(r *example3.ExampleReq, v string) { r.InnerBase2.ListBase = r.InnerBase2.ListBase[1:] }},
		{"unset map in list element", true, []Path{f("InnerBase2"), f("ListBase"), NewPathIndex(1), f("Extra"), NewPathStrKey("2a")}, func(r *example3.ExampleReq, v string) { delete(r.InnerBase2.ListBase[1].Extra, "2a") }},
	}
	desc := getExample3Desc()
	for _, c := range cases {
		for _, n := range []int{0, 1, 3, 5, 120, 130, 20000} {
			if c.unset && n != 0 {
				continue
			}
			val := strings.Repeat("x", n)
			data, err := goproto.Marshal(getExample3Req())
			if err != nil {
				t.Fatal(err)
			}
			v := NewRootValue(desc, data)
			var e bool
			if c.unset {
				err = v.UnsetByPath(c.ps...)
			} else {
				e, err = v.SetByPath(NewNodeString(val), c.ps...)
			}
			name := fmt.Sprintf("%s n=%d exist=%v err=%v", c.name, n, e, err)
			var got example3.ExampleReq
			if err2 := goproto.Unmarshal(v.Raw(), &got); err2 != nil {
				t.Errorf("%s: reference rejects: %v", name, err2)
				continue
			}
			exp := getExample3Req()
			c.edit(exp, val)
			if !goproto.Equal(exp, &got) {
				t.Errorf("%s: decodes to a different message", name)
			}
		}
	}
}
