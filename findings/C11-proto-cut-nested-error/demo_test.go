package generic

import (
	"testing"

	"github.com/cloudwego/dynamicgo/testdata/kitex_gen/pb/example3"
	goproto "google.golang.org/protobuf/proto"
)

func TestC11ProtoCutNestedError(t *testing.T) {
	part := getExamplePartialDesc()
	found := 0
	for u := uint32(1); u < 4000 && found < 5; u++ {
		for _, s := range []string{"", "a", "abcdefgh", "abcdefghijklmnopqrstuvwxyz"} {
			req := &example3.ExampleReq{Msg: "hello", InnerBase2: &example3.InnerBase2{Bool: true, Uint32: u, String_: s, ListInt32: []int32{1, 2}}}
			data, err := goproto.Marshal(req)
			if err != nil {
				t.Fatal(err)
			}
			v := NewRootValue(part, data)
			out, err := v.MarshalTo(part, &Options{DisallowUnknown: true})
			if err == nil {
				found++
				t.Errorf("u=%d s=%q: nested unknown field with DisallowUnknown: NO error, out=%x", u, s, out)
			}
		}
	}
}
