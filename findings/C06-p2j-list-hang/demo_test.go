// Place this file in package directory: conv/p2j  (package p2j)
// go test -vet=off -run TestC06PackedListTruncated ./conv/p2j/
// Before fix (see known_findings.jsonl) the conversion never returns (the test then fails after 3 s); after it: an error.
package p2j

import (
	"context"
	"encoding/hex"
	"testing"
	"time"

	"github.com/cloudwego/dynamicgo/conv"
	"github.com/cloudwego/dynamicgo/internal/util_test"
	"github.com/cloudwego/dynamicgo/proto"
)

func TestC06PackedListTruncated(t *testing.T) {
	includeDirs := util_test.MustGitPath("testdata/idl/")
	desc := proto.FnRequest(proto.GetFnDescFromFile(exampleIDLPath, "ExampleMethod", proto.Options{}, includeDirs))
	// ExampleReq{InnerBase2{ListSInt64 (field 10, packed): declared length 3, the last varint is cut}} 
	in, _ := hex.DecodeString("1a05" + "5203" + "900392")
	done := make(chan error, 1)
	go func() {
		cv := NewBinaryConv(conv.Options{})
		_, err := cv.Do(context.Background(), desc, in)
		done <- err
	}()
	select {
	case err := <-done:
		if err == nil {
			t.Fatal("truncated packed list accepted")
		}
	case <-time.After(3 * time.Second):
		t.Fatal("conversion does not terminate")
	}
}
