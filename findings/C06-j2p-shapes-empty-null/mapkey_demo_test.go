package j2p

import (
	"context"
	"testing"

	"github.com/cloudwego/dynamicgo/conv"
	"github.com/cloudwego/dynamicgo/testdata/kitex_gen/pb/example2"
	goproto "google.golang.org/protobuf/proto"
)

func TestC09MapKeys(t *testing.T) {
	desc := getExampleDesc()
	type tc struct {
		doc string
		exp *example2.ExampleReq // nil: must be rejected
	}
	for _, c := range []tc{
		{`{"InnerBase2":{"MapUint32String":{"3000000000":"a"}}}`, &example2.ExampleReq{InnerBase2: &example2.InnerBase2{MapUint32String: map[uint32]string{3000000000: "a"}}}},
		{`{"InnerBase2":{"MapUint32String":{"4294967295":"a","7":"b"}}}`, &example2.ExampleReq{InnerBase2: &example2.InnerBase2{MapUint32String: map[uint32]string{4294967295: "a", 7: "b"}}}},
		{`{"InnerBase2":{"MapUint64String":{"18446744073709551615":"a"}}}`, &example2.ExampleReq{InnerBase2: &example2.InnerBase2{MapUint64String: map[uint64]string{18446744073709551615: "a"}}}},
		{`{"InnerBase2":{"MapInt64String":{"-9223372036854775808":"a"}}}`, &example2.ExampleReq{InnerBase2: &example2.InnerBase2{MapInt64String: map[int64]string{-9223372036854775808: "a"}}}},
		{`{"InnerBase2":{"MapInt32String":{"abc":"a"}}}`, nil},
		{`{"InnerBase2":{"MapInt32String":{"3000000000":"a"}}}`, nil},
		{`{"InnerBase2":{"MapUint32String":{"-1":"a"}}}`, nil},
		{`{"InnerBase2":{"MapInt32String":{"1.5":"a"}}}`, nil},
	} {
		cv := NewBinaryConv(conv.Options{})
		out, err := cv.Do(context.Background(), desc, []byte(c.doc))
		if c.exp == nil {
			if err == nil {
				got := &example2.ExampleReq{}
				_ = goproto.Unmarshal(out, got)
				t.Errorf("%s: accepted, decodes to %v", c.doc, got)
			}
			continue
		}
		if err != nil {
			t.Errorf("%s: %v", c.doc, err)
			continue
		}
		got := &example2.ExampleReq{}
		if err := goproto.Unmarshal(out, got); err != nil {
			t.Errorf("%s: reference rejects %x: %v", c.doc, out, err)
			continue
		}
		if !goproto.Equal(c.exp, got) {
			t.Errorf("%s: decodes to %v, want %v", c.doc, got, c.exp)
		}
	}
}
