// Place this file in package directory: conv/j2p  (package j2p)
// go test -vet=off -run TestC09EmptyContainersAndShapes ./conv/j2p/
package j2p

import (
	"context"
	"testing"

	"github.com/cloudwego/dynamicgo/conv"
	"github.com/cloudwego/dynamicgo/testdata/kitex_gen/pb/base"
	"github.com/cloudwego/dynamicgo/testdata/kitex_gen/pb/example2"
	goproto "google.golang.org/protobuf/proto"
)

func TestC09EmptyContainersAndShapes(t *testing.T) {
	desc := getExampleDesc()
	type tc struct {
		doc string
		exp *example2.ExampleReq
	}
	cases := []tc{
		{`{"InnerBase2":{},"Msg":"x"}`, &example2.ExampleReq{Msg: "x", InnerBase2: &example2.InnerBase2{}}},
		{`{"InnerBase2":{"Base":{},"Bool":true}}`, &example2.ExampleReq{InnerBase2: &example2.InnerBase2{Bool: true, Base: &base.Base{}}}},
		{`{"InnerBase2":{"ListInt32":[],"Bool":true}}`, &example2.ExampleReq{InnerBase2: &example2.InnerBase2{Bool: true}}},
		{`{"InnerBase2":{"ListBase":[{},{"LogID":"a"}]}}`, &example2.ExampleReq{InnerBase2: &example2.InnerBase2{ListBase: []*base.Base{{}, {LogID: "a"}}}}},
		{`{"InnerBase2":{"MapStringString":{},"Bool":true}}`, &example2.ExampleReq{InnerBase2: &example2.InnerBase2{Bool: true}}},
		{`{"InnerBase2":{"MapStringBase":{"k":{},"j":{"LogID":"a"}}}}`, &example2.ExampleReq{InnerBase2: &example2.InnerBase2{MapStringBase: map[string]*base.Base{"k": {}, "j": {LogID: "a"}}}}},
	}
	for _, c := range cases {
		func() {
			defer func() {
				if r := recover(); r != nil {
					t.Errorf("%s: PANIC %v", c.doc, r)
				}
			}()
			cv := NewBinaryConv(conv.Options{})
			out, err := cv.Do(context.Background(), desc, []byte(c.doc))
			if err != nil {
				t.Errorf("%s: %v", c.doc, err)
				return
			}
			got := &example2.ExampleReq{}
			if err := goproto.Unmarshal(out, got); err != nil {
				t.Errorf("%s: reference rejects %x: %v", c.doc, out, err)
				return
			}
			if !goproto.Equal(c.exp, got) {
				t.Errorf("%s: out=%x decodes to %v, want %v", c.doc, out, got, c.exp)
			}
		}()
	}
	// documents whose value kinds contradict the descriptor must be rejected, not crash the process
	for _, doc := range []string{`123`, `true`, `"x"`, `1.5`, `[1,2]`, `{"Msg":{"a":1}}`, `{"InnerBase2":{"ListInt32":{"a":1}}}`} {
		func() {
			defer func() {
				if r := recover(); r != nil {
					t.Errorf("%s: PANIC %v", doc, r)
				}
			}()
			cv := NewBinaryConv(conv.Options{})
			if _, err := cv.Do(context.Background(), desc, []byte(doc)); err == nil {
				t.Errorf("%s: accepted", doc)
			}
		}()
	}
}
