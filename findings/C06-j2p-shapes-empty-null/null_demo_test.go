package j2p

import (
	"context"
	"testing"

	"github.com/cloudwego/dynamicgo/conv"
	"github.com/cloudwego/dynamicgo/testdata/kitex_gen/pb/base"
	"github.com/cloudwego/dynamicgo/testdata/kitex_gen/pb/example2"
	goproto "google.golang.org/protobuf/proto"
)

func TestC06NullMembers(t *testing.T) {
	desc := getExampleDesc()
	type tc struct {
		doc string
		exp *example2.ExampleReq
	}
	for _, c := range []tc{
		{`{"Msg":null}`, &example2.ExampleReq{}},
		{`{"Msg":null,"A":1}`, &example2.ExampleReq{A: 1}},
		{`{"A":1,"Msg":null}`, &example2.ExampleReq{A: 1}},
		{`{"InnerBase2":null,"A":1}`, &example2.ExampleReq{A: 1}},
		{`{"InnerBase2":{"Bool":null,"Uint32":5}}`, &example2.ExampleReq{InnerBase2: &example2.InnerBase2{Uint32: 5}}},
		{`{"InnerBase2":{"ListInt32":[null,1]}}`, &example2.ExampleReq{InnerBase2: &example2.InnerBase2{ListInt32: []int32{1}}}},
		{`{"InnerBase2":{"MapStringString":{"a":null,"b":"c"}}}`, &example2.ExampleReq{InnerBase2: &example2.InnerBase2{MapStringString: map[string]string{"a": "", "b": "c"}}}},
		{`{"InnerBase2":{"ListBase":[null,{"LogID":"a"}]}}`, &example2.ExampleReq{InnerBase2: &example2.InnerBase2{ListBase: []*base.Base{{LogID: "a"}}}}},
	} {
		func() {
			defer func() {
				if r := recover(); r != nil {
					t.Errorf("%s: PANIC %v", c.doc, r)
				}
			}()
			cv := NewBinaryConv(conv.Options{})
			out, err := cv.Do(context.Background(), desc, []byte(c.doc))
			if err != nil {
				t.Errorf("%s: %v", c.doc, err)
				return
			}
			got := &example2.ExampleReq{}
			if err := goproto.Unmarshal(out, got); err != nil {
				t.Errorf("%s: reference rejects %x: %v", c.doc, out, err)
				return
			}
			if !goproto.Equal(c.exp, got) {
				t.Errorf("%s: out=%x decodes to %v, want %v", c.doc, out, got, c.exp)
			}
		}()
	}
}
