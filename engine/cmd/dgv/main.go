package main

import (
	"flag"
	"fmt"
	"os"
	"sort"
	"strings"

	"dgv/eng"
)

func main() {
	if len(os.Args) < 2 {
		fmt.Println("usage: dgv <check|func> ...")
		os.Exit(2)
	}
	switch os.Args[1] {
	case "func":
		cmdFunc(os.Args[2:])
	case "list":
		p, err := eng.LoadProgram("/repo", strings.Split(os.Args[2], ","))
		if err != nil {
			fmt.Println(err)
			os.Exit(2)
		}
		for _, k := range p.SortedFuncKeys() {
			if strings.HasPrefix(k, eng.ModPath) {
				fmt.Println(k)
			}
		}
	case "replay":
		os.Exit(eng.CmdReplay(os.Args[2:]))
	case "check":
		os.Exit(eng.CmdCheck(os.Args[2:]))
	default:
		fmt.Println("unknown command")
		os.Exit(2)
	}
}

// dgv func -pkg ./proto/protowire [-f name] : verify functions with contracts, print obligations (debug aid)
func cmdFunc(args []string) {
	fs := flag.NewFlagSet("func", flag.ExitOnError)
	repo := fs.String("repo", "/repo", "repository")
	specs := fs.String("specs", "/verif/specs", "spec mirror dir")
	pkgs := fs.String("pkg", "./proto/protowire", "package patterns (comma separated)")
	only := fs.String("f", "", "substring filter on function keys")
	timeout := fs.Int("t", 5, "solver timeout")
	keep := fs.Bool("keep", false, "keep all smt files")
	verbose := fs.Bool("v", false, "verbose")
	tier := fs.String("tier", "quick", "quick|thorough")
	fs.Parse(args)
	p, err := eng.LoadProgram(*repo, strings.Split(*pkgs, ","))
	if err != nil {
		fmt.Println("load:", err)
		os.Exit(2)
	}
	e := eng.NewEngine(p)
	e.Tier = *tier
	if err := e.LoadAllSpecs(*specs); err != nil {
		fmt.Println("specs:", err)
		os.Exit(2)
	}
	var keys []string
	for k := range e.Specs {
		if *only == "" || strings.Contains(k, *only) {
			keys = append(keys, k)
		}
	}
	sort.Strings(keys)
	scratch, _ := os.MkdirTemp("/root/scratch", "dgv-")
	os.MkdirAll(scratch, 0o755)
	bad := 0
	for _, k := range keys {
		r := e.VerifyFunc(k)
		if r.Err != "" {
			fmt.Printf("%-60s ERROR %s\n", eng.ShortKey(k), r.Err)
			bad++
			continue
		}
		st := e.SolveAll(r.Obligs, eng.SolveOpts{Timeout: *timeout, Scratch: scratch, Workers: 16, KeepAll: *keep})
		ok, fail := 0, 0
		for _, o := range r.Obligs {
			good := o.Verdict == "unsat" && !o.Cover || o.Cover && o.Verdict == "sat"
			if good {
				ok++
			} else {
				fail++
			}
			if !good || *verbose {
				fmt.Printf("   %-8s %-7s %5.2fs %s  [%s] %s\n", o.Verdict, o.Solver, o.Secs, o.ID, o.Pos, o.SMTFile)
				if !good && *verbose {
					fmt.Printf("      path: %s\n", o.Path)
				}
				if !good && o.SMTFile == "" {
					fmt.Printf("      output: %s\n", o.Output)
				}
			}
		}
		fmt.Printf("%-60s paths=%d rets=%d obligations=%d ok=%d FAIL=%d trivial=%d abstracted=%v queries=%d\n", eng.ShortKey(k), r.Paths, r.Returns, len(r.Obligs), ok, fail, r.Trivial, r.Abstracted, st.Queries)
		bad += fail
	}
	if bad > 0 {
		os.Exit(1)
	}
}
