#!/bin/sh
# usage: dbgmodel.sh file.smt2  — prints scalar constants of a model
(grep -v "^(get-value" "$1"; echo "(get-model)") | z3-new -in 2>&1 | python3 -c "
import sys,re
t=sys.stdin.read()
print(t.split('\n')[0])
for m in re.finditer(r'\(define-fun (\|[^|]*\||\S+) \(\) (\(_ BitVec \d+\)|Bool)\s+(#x[0-9a-f]+|#b[01]+|true|false)\)', t):
    print(m.group(1), m.group(3))
"
