package eng

import (
	"fmt"
	"math/big"
	"os"
)

// A small interval prover for linear bit-vector goals (slice/index/allocation bounds are mostly of this
// shape and bit-blasting them is disproportionately expensive). Sound by construction: a comparison is
// only decided when the mathematical values of both sides are shown to lie in a range where the 64-bit
// signed/unsigned interpretation coincides with the mathematical one. Anything else is left to the solvers.

type ival struct{ lo, hi *big.Int }

var (
	bigMin63 = new(big.Int).Neg(new(big.Int).Lsh(big.NewInt(1), 63))
	bigMax63 = new(big.Int).Sub(new(big.Int).Lsh(big.NewInt(1), 63), big.NewInt(1))
)

func sconst(t *Term) *big.Int { return big.NewInt(sx(t.Val, t.S.W)) }

type linProver struct {
	c        *Ctx
	bounds   map[*Term]*ival
	facts    []linForm // each: sum >= 0 (mathematically)
	raw      []*Term   // comparison literals between non-constant sides, turned into facts after bounds are known
	rawPos   []bool
	edges    []diffEdge
	inStride bool
}

type linForm struct {
	m map[*Term]uint64
	k uint64
}

func (p *linProver) form(a, b *Term, extra int64) linForm { // a - b + extra
	m := map[*Term]uint64{}
	var k uint64
	p.c.linearize(a, 1, m, &k)
	p.c.linearize(b, ^uint64(0), m, &k)
	k += uint64(extra)
	for t, co := range m {
		if co == 0 {
			delete(m, t)
		}
	}
	return linForm{m, k}
}

func (f linForm) minus(g linForm) linForm {
	m := map[*Term]uint64{}
	for t, co := range f.m {
		m[t] = co
	}
	for t, co := range g.m {
		m[t] -= co
		if m[t] == 0 {
			delete(m, t)
		}
	}
	return linForm{m, f.k - g.k}
}

// nonneg: the mathematical value of f is certainly >= 0, possibly using one or two known facts.
func (p *linProver) nonneg(f linForm) bool {
	if i := p.interval(f.m, f.k); i != nil && i.lo.Sign() >= 0 {
		return true
	}
	for a := range p.facts {
		g := f.minus(p.facts[a])
		if i := p.interval(g.m, g.k); i != nil && i.lo.Sign() >= 0 {
			return true
		}
	}
	if p.diffProve(f) {
		return true
	}
	// common stride: f = g*f' + r with 0 <= r < g, so f' >= 0 implies f >= 0 (array indexing with element size g)
	if !p.inStride && len(f.m) >= 1 {
		var g int64
		ok := true
		for _, co := range f.m {
			c := int64(co)
			if c < 0 {
				c = -c
			}
			if c <= 0 {
				ok = false
				break
			}
			if g == 0 {
				g = c
			} else {
				for a, b := g, c; ; {
					if b == 0 {
						g = a
						break
					}
					a, b = b, a%b
				}
			}
		}
		if ok && g > 1 && g <= 1<<20 {
			k := int64(f.k)
			q := k / g
			if k%g != 0 && k < 0 {
				q-- // floor division
			}
			h := linForm{m: map[*Term]uint64{}, k: uint64(q)}
			for t, co := range f.m {
				h.m[t] = uint64(int64(co) / g)
			}
			p.inStride = true
			r := p.nonneg(h)
			p.inStride = false
			if r {
				return true
			}
		}
	}
	// one fact scaled by a small positive factor (array indexing: elemsize*(len - i - 1) >= 0)
	for a := range p.facts {
		g := p.facts[a]
		for t, cg := range g.m {
			cf, ok := f.m[t]
			if !ok {
				continue
			}
			sf, sg := int64(cf), int64(cg)
			if sg == 0 || sf%sg != 0 {
				continue
			}
			k := sf / sg
			if k < 2 || k > 1<<20 {
				continue
			}
			h := linForm{m: map[*Term]uint64{}, k: f.k - uint64(k)*g.k}
			for u, cu := range f.m {
				h.m[u] = cu
			}
			for u, cu := range g.m {
				h.m[u] -= uint64(k) * cu
				if h.m[u] == 0 {
					delete(h.m, u)
				}
			}
			if i := p.interval(h.m, h.k); i != nil && i.lo.Sign() >= 0 {
				return true
			}
			break
		}
	}
	if len(p.facts) <= 40 {
		for a := range p.facts {
			g := f.minus(p.facts[a])
			for b := range p.facts {
				if b == a {
					continue
				}
				h := g.minus(p.facts[b])
				if i := p.interval(h.m, h.k); i != nil && i.lo.Sign() >= 0 {
					return true
				}
			}
		}
	}
	return false
}

// finish turns the recorded comparison literals into linear facts (needs the atom bounds first).
func (p *linProver) finish() {
	// comparisons between two atoms give bounds to an atom that lacks one (x <= y, y bounded above => x bounded above)
	for round := 0; round < 3; round++ {
		for n, a := range p.raw {
			x, y := a.Args[0], a.Args[1]
			if a.Op != OSlt {
				continue
			}
			lo, hi := x, y // lo < hi  (pos)  or  lo >= hi (neg) i.e. hi' <= lo'
			strict := int64(1)
			if !p.rawPos[n] {
				lo, hi, strict = y, x, 0
			}
			// now: lo + strict <= hi
			if bl, bh := p.bounds[lo], p.bounds[hi]; lo.Op != OAdd && hi.Op != OAdd {
				if bh != nil && bh.hi != nil {
					p.tighten(lo, nil, new(big.Int).Sub(bh.hi, big.NewInt(strict)))
				}
				if bl != nil && bl.lo != nil {
					p.tighten(hi, new(big.Int).Add(bl.lo, big.NewInt(strict)), nil)
				}
			} else if lo.Op != OAdd {
				// atom <= linear form whose mathematical interval is known (and free of wrap-around)
				if ih := p.ivalOf(hi); inSigned(ih) {
					p.tighten(lo, nil, new(big.Int).Sub(ih.hi, big.NewInt(strict)))
				}
			} else if hi.Op != OAdd {
				if il := p.ivalOf(lo); inSigned(il) {
					p.tighten(hi, new(big.Int).Add(il.lo, big.NewInt(strict)), nil)
				}
			}
		}
	}
	// two passes: signed comparisons first, so that their facts can justify the unsigned ones
	for pass := 0; pass < 2; pass++ {
		p.finishPass(pass == 0)
	}
}

func (p *linProver) finishPass(signedOnly bool) {
	for n, a := range p.raw {
		if (a.Op == OSlt) != signedOnly {
			continue
		}
		x, y := a.Args[0], a.Args[1]
		ix, iy := p.ivalOf(x), p.ivalOf(y)
		if !inSigned(ix) || !inSigned(iy) {
			continue
		}
		if a.Op == OUlt && (!nonNeg(ix) || !nonNeg(iy)) {
			// try with the facts learned so far (signed facts are processed first)
			zero := p.c.Const(64, 0)
			if !p.nonneg(p.form(x, zero, 0)) || !p.nonneg(p.form(y, zero, 0)) {
				continue
			}
		}
		if p.rawPos[n] { // x < y : y - x - 1 >= 0
			p.facts = append(p.facts, p.form(y, x, -1))
		} else { // x >= y
			p.facts = append(p.facts, p.form(x, y, 0))
		}
	}
}

func (p *linProver) tighten(t *Term, lo, hi *big.Int) {
	b := p.bounds[t]
	if b == nil {
		b = &ival{}
		p.bounds[t] = b
	}
	if lo != nil && (b.lo == nil || lo.Cmp(b.lo) > 0) {
		b.lo = lo
	}
	if hi != nil && (b.hi == nil || hi.Cmp(b.hi) < 0) {
		b.hi = hi
	}
}

// learn records bounds implied by an assumed literal (64-bit terms only).
func (p *linProver) learn(a *Term, pos bool) {
	switch a.Op {
	case OAnd:
		if pos {
			for _, x := range a.Args {
				p.learn(x, true)
			}
		}
	case ONot:
		p.learn(a.Args[0], !pos)
	case OSlt:
		x, y := a.Args[0], a.Args[1]
		if x.S.W != 64 {
			return
		}
		if !x.IsConst() && !y.IsConst() {
			p.raw = append(p.raw, a)
			p.rawPos = append(p.rawPos, pos)
		}
		if y.IsConst() {
			k := sconst(y)
			if pos { // x < k
				p.tighten(x, nil, new(big.Int).Sub(k, big.NewInt(1)))
			} else { // x >= k
				p.tighten(x, k, nil)
			}
		}
		if x.IsConst() {
			k := sconst(x)
			if pos { // k < y
				p.tighten(y, new(big.Int).Add(k, big.NewInt(1)), nil)
			} else { // y <= k
				p.tighten(y, nil, k)
			}
		}
	case OUlt:
		x, y := a.Args[0], a.Args[1]
		if x.S.W != 64 {
			return
		}
		if !x.IsConst() && !y.IsConst() {
			p.raw = append(p.raw, a)
			p.rawPos = append(p.rawPos, pos)
		}
		if y.IsConst() && pos && y.Val < 1<<63 { // 0 <= x < k (unsigned, k small)
			p.tighten(x, big.NewInt(0), new(big.Int).SetUint64(y.Val-1))
		}
	case OEq:
		x, y := a.Args[0], a.Args[1]
		if pos && x.S.K == SBV && x.S.W == 64 {
			if y.IsConst() {
				p.tighten(x, sconst(y), sconst(y))
			} else if x.IsConst() {
				p.tighten(y, sconst(x), sconst(x))
			}
		}
	}
}

// interval of the mathematical value of the linear form of t (nil if some atom is unbounded).
func (p *linProver) interval(m map[*Term]uint64, k uint64) *ival {
	lo, hi := big.NewInt(int64(k)), big.NewInt(int64(k))
	for a, co := range m {
		b := p.bounds[a]
		if a.Op == OZext { // zero extension of a narrower value is bounded by its width
			w := a.Args[0].S.W
			if w < 63 {
				bb := &ival{lo: big.NewInt(0), hi: new(big.Int).Sub(new(big.Int).Lsh(big.NewInt(1), uint(w)), big.NewInt(1))}
				if b != nil {
					if b.lo != nil && b.lo.Cmp(bb.lo) > 0 {
						bb.lo = b.lo
					}
					if b.hi != nil && b.hi.Cmp(bb.hi) < 0 {
						bb.hi = b.hi
					}
				}
				b = bb
			}
		}
		if b == nil || b.lo == nil || b.hi == nil {
			return nil
		}
		cf := big.NewInt(int64(co))
		x, y := new(big.Int).Mul(cf, b.lo), new(big.Int).Mul(cf, b.hi)
		if x.Cmp(y) > 0 {
			x, y = y, x
		}
		lo.Add(lo, x)
		hi.Add(hi, y)
	}
	return &ival{lo, hi}
}

func (p *linProver) ivalOf(t *Term) *ival {
	if b := p.bounds[t]; b != nil && b.lo != nil && b.hi != nil && t.Op != OAdd {
		return b
	}
	m := map[*Term]uint64{}
	var k uint64
	p.c.linearize(t, 1, m, &k)
	return p.interval(m, k)
}

func inSigned(i *ival) bool { return i != nil && i.lo.Cmp(bigMin63) >= 0 && i.hi.Cmp(bigMax63) <= 0 }
func nonNeg(i *ival) bool   { return i != nil && i.lo.Sign() >= 0 && i.hi.Cmp(bigMax63) <= 0 }

// diff: interval of math(a) - math(b), sharing atoms.
func (p *linProver) diff(a, b *Term) *ival {
	m := map[*Term]uint64{}
	var k uint64
	p.c.linearize(a, 1, m, &k)
	p.c.linearize(b, ^uint64(0), m, &k)
	for t, co := range m {
		if co == 0 {
			delete(m, t)
		}
	}
	return p.interval(m, k)
}

// prove returns true only if the goal certainly holds under the learned bounds.
func (p *linProver) prove(g *Term, pos bool) bool {
	switch g.Op {
	case OConst:
		return (g.Val == 1) == pos
	case ONot:
		return p.prove(g.Args[0], !pos)
	case OAnd:
		if pos {
			for _, x := range g.Args {
				if !p.prove(x, true) {
					return false
				}
			}
			return true
		}
		for _, x := range g.Args {
			if p.prove(x, false) {
				return true
			}
		}
		return false
	case OOr:
		if pos {
			for _, x := range g.Args {
				if p.prove(x, true) {
					return true
				}
			}
			return false
		}
		for _, x := range g.Args {
			if !p.prove(x, false) {
				return false
			}
		}
		return true
	case OSlt, OUlt:
		a, b := g.Args[0], g.Args[1]
		if a.S.W != 64 {
			return false
		}
		ia, ib := p.ivalOf(a), p.ivalOf(b)
		if !inSigned(ia) || !inSigned(ib) {
			return false
		}
		if g.Op == OUlt {
			// unsigned comparison coincides with the mathematical one when both sides are >= 0
			zero := p.c.Const(64, 0)
			if !p.nonneg(p.form(a, zero, 0)) || !p.nonneg(p.form(b, zero, 0)) {
				return false
			}
		}
		if pos { // a < b  <=>  b - a - 1 >= 0
			return p.nonneg(p.form(b, a, -1))
		}
		return p.nonneg(p.form(a, b, 0)) // a >= b
	}
	return false
}

// linearDischarge tries to decide goal from the bounds stated literally among the assumptions.
func (e *Engine) linearDischarge(assumps []*Term, goal *Term) bool {
	p := &linProver{c: e.C, bounds: map[*Term]*ival{}}
	for _, a := range assumps {
		p.learn(a, true)
	}
	p.finish()
	r := p.prove(goal, true)
	if !r && os.Getenv("DGV_LINDEBUG") != "" {
		fmt.Fprintf(os.Stderr, "LIN goal: %s\n  facts=%d raw=%d\n", e.C.Show(goal), len(p.facts), len(p.raw))
		Walk([]*Term{goal}, func(t *Term) {
			if t.S.K == SBV && t.S.W == 64 && t.Op != OConst && t.Op != OAdd && t.Op != OMul && t.Op != ONeg {
				b := p.bounds[t]
				if b == nil || b.lo == nil || b.hi == nil {
					fmt.Fprintf(os.Stderr, "  unbounded atom: %s\n", e.C.Show(t))
				}
			}
		})
	}
	return r
}

// ---- difference constraints ---------------------------------------------------------------------------
// Facts and bounds of the shape  x - y + k >= 0  (coefficients +1/-1) form a weighted graph; a goal of the
// same shape holds if the shortest path between its atoms is short enough (Bellman-Ford, no bound on the
// number of facts chained). Weights are kept below 2^50 so that sums cannot overflow int64.

const diffMax = int64(1) << 50

type diffEdge struct {
	from, to *Term // to - from <= w
	w        int64
}

func smallK(k uint64) (int64, bool) {
	v := int64(k)
	return v, v > -diffMax && v < diffMax
}

// split f into (plus atom, minus atom, constant); nil atoms stand for zero. ok=false if f is not a difference.
func diffShape(f linForm) (plus, minus *Term, k int64, ok bool) {
	if len(f.m) > 2 {
		return nil, nil, 0, false
	}
	k, ok = smallK(f.k)
	if !ok {
		return nil, nil, 0, false
	}
	for t, co := range f.m {
		switch co {
		case 1:
			if plus != nil {
				return nil, nil, 0, false
			}
			plus = t
		case ^uint64(0):
			if minus != nil {
				return nil, nil, 0, false
			}
			minus = t
		default:
			return nil, nil, 0, false
		}
	}
	return plus, minus, k, true
}

func (p *linProver) diffEdges() []diffEdge {
	if p.edges != nil {
		return p.edges
	}
	es := []diffEdge{}
	for _, f := range p.facts {
		// plus - minus + k >= 0  =>  minus - plus <= k : edge plus -> minus, weight k
		if plus, minus, k, ok := diffShape(f); ok && (plus != nil || minus != nil) {
			es = append(es, diffEdge{plus, minus, k})
		}
	}
	for t, b := range p.bounds {
		if t.Op == OAdd || t.Op == OConst {
			continue
		}
		if b.hi != nil && b.hi.IsInt64() {
			if v := b.hi.Int64(); v > -diffMax && v < diffMax {
				es = append(es, diffEdge{nil, t, v}) // t - 0 <= hi
			}
		}
		if b.lo != nil && b.lo.IsInt64() {
			if v := b.lo.Int64(); v > -diffMax && v < diffMax {
				es = append(es, diffEdge{t, nil, -v}) // 0 - t <= -lo
			}
		}
	}
	p.edges = es
	return es
}

// diffProve: f = plus - minus + k >= 0 follows if the shortest path plus ~> minus weighs at most k.
func (p *linProver) diffProve(f linForm) bool {
	if n := len(f.m); n > 2 && n <= 4 {
		// replace one atom by its bound on the pessimistic side and try again
		for t, co := range f.m {
			b := p.bounds[t]
			if b == nil || t.Op == OAdd {
				continue
			}
			var adj *big.Int
			if co == 1 && b.lo != nil {
				adj = b.lo
			} else if co == ^uint64(0) && b.hi != nil {
				adj = new(big.Int).Neg(b.hi)
			}
			if adj == nil || !adj.IsInt64() {
				continue
			}
			a := adj.Int64()
			if a <= -diffMax || a >= diffMax {
				continue
			}
			g := linForm{m: map[*Term]uint64{}, k: f.k + uint64(a)}
			for u, cu := range f.m {
				if u != t {
					g.m[u] = cu
				}
			}
			if p.diffProve(g) {
				return true
			}
		}
		return false
	}
	plus, minus, k, ok := diffShape(f)
	if !ok || (plus == nil && minus == nil) {
		return false
	}
	es := p.diffEdges()
	if len(es) == 0 || len(es) > 4000 {
		return false
	}
	dist := map[*Term]int64{plus: 0}
	for round := 0; round < 64; round++ {
		changed := false
		for _, e := range es {
			d, ok := dist[e.from]
			if !ok {
				continue
			}
			nd := d + e.w
			if nd < -diffMax*1024 {
				return false // negative cycle or runaway: leave to the solvers
			}
			if old, ok := dist[e.to]; !ok || nd < old {
				dist[e.to] = nd
				changed = true
			}
		}
		if !changed {
			break
		}
	}
	d, ok := dist[minus]
	return ok && d <= k
}
