package eng

import (
	"fmt"
	"go/ast"
	"go/constant"
	"go/token"
	"go/types"
	"strings"

	"golang.org/x/tools/go/ssa"
)

// SVal is the value of a specification expression: a symbolic value with its Go type, or an
// untyped constant (T == nil).
type SVal struct {
	V    Value
	T    types.Type
	K    constant.Value
	Addr bool // V is the address of an address-taken local variable of the name (loop clauses)
}

type specEnv struct {
	e      *Engine
	pkg    *types.Package
	vars   map[string]SVal
	heap   *Heap
	old    *Heap
	assume bool // evaluation of an assumed clause (fresh() binds new regions; foralls become facts)
	bound  map[string]*Term
	depth  int
	// collected while evaluating
	newFacts   []*QFact
	rc         *rootCtx
	freshAlloc func() *Term
	freshMemo  map[*Term]*Term
	ext        []extent
	st         *State
	headCalls  *Term
}

func specErr(f string, a ...interface{}) { panic(Unsupported{"spec: " + fmt.Sprintf(f, a...)}) }

func (env *specEnv) c() *Ctx { return env.e.C }

func (env *specEnv) boolTerm(v SVal) *Term {
	sc, ok := v.V.(Scalar)
	if !ok || sc.T.S.K != SBool {
		specErr("boolean expected, got %T", v.V)
	}
	return sc.T
}

// toType converts an SVal to a concrete integer/bool type (materialising untyped constants).
func (env *specEnv) toType(v SVal, t types.Type) SVal {
	c := env.c()
	if v.T != nil {
		return v
	}
	if v.K == nil {
		specErr("untyped non-constant")
	}
	if v.K.Kind() == constant.Bool {
		return SVal{V: Scalar{T: c.Bool(constant.BoolVal(v.K))}, T: types.Typ[types.Bool]}
	}
	w, _, ok := intInfo(t)
	if !ok {
		specErr("cannot convert constant %s to %s", v.K, t)
	}
	k := constant.ToInt(v.K)
	if i, ok := constant.Int64Val(k); ok {
		return SVal{V: Scalar{T: c.Const(w, uint64(i))}, T: t}
	}
	if u, ok := constant.Uint64Val(k); ok {
		return SVal{V: Scalar{T: c.Const(w, u)}, T: t}
	}
	specErr("constant %s out of range", v.K)
	return SVal{}
}

func (env *specEnv) lookupType(name string) types.Type {
	switch name {
	case "byte":
		return types.Typ[types.Uint8]
	case "rune":
		return types.Typ[types.Int32]
	}
	for _, b := range types.Typ {
		if b.Name() == name {
			return b
		}
	}
	if env.pkg != nil {
		if o := env.pkg.Scope().Lookup(name); o != nil {
			if tn, ok := o.(*types.TypeName); ok {
				return tn.Type()
			}
		}
	}
	return nil
}

func (env *specEnv) typeOfExpr(x ast.Expr) types.Type {
	switch t := x.(type) {
	case *ast.Ident:
		return env.lookupType(t.Name)
	case *ast.StarExpr:
		if b := env.typeOfExpr(t.X); b != nil {
			return types.NewPointer(b)
		}
	case *ast.ArrayType:
		if t.Len == nil {
			if b := env.typeOfExpr(t.Elt); b != nil {
				return types.NewSlice(b)
			}
		}
	case *ast.SelectorExpr:
		if id, ok := t.X.(*ast.Ident); ok {
			if p := env.importedPkg(id.Name); p != nil {
				if o := p.Scope().Lookup(t.Sel.Name); o != nil {
					if tn, ok := o.(*types.TypeName); ok {
						return tn.Type()
					}
				}
			}
		}
	case *ast.ParenExpr:
		return env.typeOfExpr(t.X)
	}
	return nil
}

func (env *specEnv) importedPkg(name string) *types.Package {
	if env.pkg == nil {
		return nil
	}
	for _, imp := range env.pkg.Imports() {
		if imp.Name() == name {
			return imp
		}
	}
	// any loaded package with that name (spec files may mention packages the code does not import)
	for path, p := range env.e.P.All {
		if p.Types != nil && p.Types.Name() == name && strings.HasPrefix(path, ModPath) {
			return p.Types
		}
	}
	for _, p := range env.e.P.All {
		if p.Types != nil && p.Types.Name() == name {
			return p.Types
		}
	}
	return nil
}

func (env *specEnv) parseTypeString(s string) types.Type {
	ex, err := parserParseExpr(s)
	if err != nil {
		specErr("bad type %q", s)
	}
	t := env.typeOfExpr(ex)
	if t == nil {
		specErr("unknown type %q", s)
	}
	return t
}

func (env *specEnv) eval(x ast.Expr) SVal {
	c := env.c()
	switch t := x.(type) {
	case *ast.ParenExpr:
		return env.eval(t.X)
	case *ast.BasicLit:
		switch t.Kind {
		case token.INT, token.CHAR:
			return SVal{K: constant.MakeFromLiteral(t.Value, t.Kind, 0)}
		case token.STRING:
			s := constant.StringVal(constant.MakeFromLiteral(t.Value, t.Kind, 0))
			return SVal{V: env.e.stringConst(s), T: types.Typ[types.String]}
		}
		specErr("literal %s", t.Value)
	case *ast.Ident:
		return env.ident(t.Name)
	case *ast.UnaryExpr:
		v := env.eval(t.X)
		switch t.Op {
		case token.NOT:
			return SVal{V: Scalar{T: c.Not(env.boolTerm(v))}, T: types.Typ[types.Bool]}
		case token.SUB:
			if v.T == nil {
				return SVal{K: constant.UnaryOp(token.SUB, v.K, 0)}
			}
			return SVal{V: Scalar{T: c.Neg(v.V.(Scalar).T)}, T: v.T}
		case token.XOR:
			if v.T == nil {
				specErr("^ on untyped constant")
			}
			return SVal{V: Scalar{T: c.BNot(v.V.(Scalar).T)}, T: v.T}
		case token.AND:
			return env.addrOf(t.X)
		}
		specErr("unary %s", t.Op)
	case *ast.StarExpr:
		v := env.eval(t.X)
		pt, ok := v.T.Underlying().(*types.Pointer)
		if !ok {
			specErr("deref of non-pointer")
		}
		lv := c.Load(env.heap, toPtr(v.V), 0, pt.Elem())
		c.wfAssume(lv, &env.e.pendingWF)
		return SVal{V: lv, T: pt.Elem()}
	case *ast.BinaryExpr:
		return env.binary(t)
	case *ast.SelectorExpr:
		return env.selector(t)
	case *ast.IndexExpr:
		return env.indexExpr(t)
	case *ast.SliceExpr:
		return env.sliceExpr(t)
	case *ast.CallExpr:
		return env.call(t)
	}
	specErr("unsupported expression %T", x)
	return SVal{}
}

func (env *specEnv) ident(name string) SVal {
	c := env.c()
	switch name {
	case "true":
		return SVal{V: Scalar{T: c.True()}, T: types.Typ[types.Bool]}
	case "false":
		return SVal{V: Scalar{T: c.False()}, T: types.Typ[types.Bool]}
	case "nil":
		return SVal{V: c.NilPtr(), T: types.Typ[types.UntypedNil]}
	}
	if b, ok := env.bound[name]; ok {
		return SVal{V: Scalar{T: b}, T: types.Typ[types.Int]}
	}
	if v, ok := env.vars[name]; ok {
		return v
	}
	if env.pkg != nil {
		if o := env.pkg.Scope().Lookup(name); o != nil {
			return env.object(o)
		}
	}
	specErr("unknown identifier %q", name)
	return SVal{}
}

func (env *specEnv) object(o types.Object) SVal {
	switch ob := o.(type) {
	case *types.Const:
		v := SVal{K: ob.Val()}
		if b, ok := ob.Type().Underlying().(*types.Basic); ok && b.Info()&types.IsUntyped == 0 {
			return env.toType(v, ob.Type())
		}
		return v
	case *types.Var:
		// package-level variable: load from its region
		pk := env.e.P.SSA.Package(ob.Pkg())
		if pk != nil {
			if g, ok := pk.Members[ob.Name()].(*ssa.Global); ok {
				p := Ptr{env.e.globalRegion(g), env.c().Const(64, 0)}
				return SVal{V: env.c().Load(env.heap, p, 0, ob.Type()), T: ob.Type()}
			}
		}
	}
	specErr("unsupported object %s", o)
	return SVal{}
}

func (env *specEnv) addrOf(x ast.Expr) SVal {
	// &p.f, &s[i], &*p
	p, t := env.lvalue(x)
	return SVal{V: p, T: types.NewPointer(t)}
}

// lvalue evaluates an addressable expression to (pointer, type).
func (env *specEnv) lvalue(x ast.Expr) (Ptr, types.Type) {
	c := env.c()
	switch t := x.(type) {
	case *ast.ParenExpr:
		return env.lvalue(t.X)
	case *ast.StarExpr:
		v := env.eval(t.X)
		pt, ok := v.T.Underlying().(*types.Pointer)
		if !ok {
			specErr("deref of non-pointer in lvalue")
		}
		return toPtr(v.V), pt.Elem()
	case *ast.SelectorExpr:
		var p Ptr
		var st *types.Struct
		base := env.eval(t.X)
		if pt, ok := base.T.Underlying().(*types.Pointer); ok {
			st, ok = pt.Elem().Underlying().(*types.Struct)
			if !ok {
				specErr("lvalue selector on non-struct pointer")
			}
			p = toPtr(base.V)
		} else if sst, ok := base.T.Underlying().(*types.Struct); ok {
			// field of an addressable struct (it.p.Read): address of the struct first
			bp, _ := env.lvalue(t.X)
			p, st = bp, sst
		} else {
			specErr("lvalue selector on %s", base.T)
		}
		for i := 0; i < st.NumFields(); i++ {
			if st.Field(i).Name() == t.Sel.Name {
				return Ptr{p.R, c.Add(p.O, c.Const(64, uint64(structOffsets(st)[i])))}, st.Field(i).Type()
			}
		}
		specErr("no field %s", t.Sel.Name)
	case *ast.IndexExpr:
		base := env.eval(t.X)
		i := env.toType(env.eval(t.Index), types.Typ[types.Int])
		it := env.asInt64(i)
		switch u := base.T.Underlying().(type) {
		case *types.Slice:
			s := base.V.(Slice)
			return Ptr{s.P.R, c.Add(s.P.O, c.Mul(it, c.Const(64, uint64(sizeof(u.Elem())))))}, u.Elem()
		}
		specErr("lvalue index on %s", base.T)
	}
	specErr("not an lvalue: %T", x)
	return Ptr{}, nil
}

func (env *specEnv) asInt64(v SVal) *Term {
	_, signed, ok := intInfo(v.T)
	if !ok {
		specErr("integer expected, got %s", v.T)
	}
	return env.c().Resize(v.V.(Scalar).T, 64, signed)
}

func (env *specEnv) selector(t *ast.SelectorExpr) SVal {
	c := env.c()
	if id, ok := t.X.(*ast.Ident); ok {
		if _, isVar := env.vars[id.Name]; !isVar {
			if _, isB := env.bound[id.Name]; !isB {
				if p := env.importedPkg(id.Name); p != nil && (env.pkg == nil || env.pkg.Scope().Lookup(id.Name) == nil) {
					o := p.Scope().Lookup(t.Sel.Name)
					if o == nil {
						specErr("unknown %s.%s", id.Name, t.Sel.Name)
					}
					return env.object(o)
				}
			}
		}
	}
	base := env.eval(t.X)
	bt := base.T
	if pt, ok := bt.Underlying().(*types.Pointer); ok {
		st, ok := pt.Elem().Underlying().(*types.Struct)
		if !ok {
			specErr("selector on pointer to non-struct %s", bt)
		}
		for i := 0; i < st.NumFields(); i++ {
			if st.Field(i).Name() == t.Sel.Name {
				v := c.Load(env.heap, toPtr(base.V), structOffsets(st)[i], st.Field(i).Type())
				c.wfAssume(v, &env.e.pendingWF) // standing size assumption for values read by specifications
				env.e.pendingVals = append(env.e.pendingVals, pendingVal{v, st.Field(i).Type()})
				return SVal{V: v, T: st.Field(i).Type()}
			}
		}
		// promoted field of an embedded struct, through the pointer (one level)
		for i := 0; i < st.NumFields(); i++ {
			if !st.Field(i).Embedded() {
				continue
			}
			if est, ok := st.Field(i).Type().Underlying().(*types.Struct); ok {
				for j := 0; j < est.NumFields(); j++ {
					if est.Field(j).Name() == t.Sel.Name {
						off := structOffsets(st)[i] + structOffsets(est)[j]
						v := c.Load(env.heap, toPtr(base.V), off, est.Field(j).Type())
						c.wfAssume(v, &env.e.pendingWF)
						env.e.pendingVals = append(env.e.pendingVals, pendingVal{v, est.Field(j).Type()})
						return SVal{V: v, T: est.Field(j).Type()}
					}
				}
			}
		}
		specErr("no field %s in %s", t.Sel.Name, bt)
	}
	if st, ok := bt.Underlying().(*types.Struct); ok {
		for i := 0; i < st.NumFields(); i++ {
			if st.Field(i).Name() == t.Sel.Name {
				return SVal{V: base.V.(Struct).F[i], T: st.Field(i).Type()}
			}
		}
		// promoted field of an embedded struct value (one level)
		for i := 0; i < st.NumFields(); i++ {
			if !st.Field(i).Embedded() {
				continue
			}
			if est, ok := st.Field(i).Type().Underlying().(*types.Struct); ok {
				for j := 0; j < est.NumFields(); j++ {
					if est.Field(j).Name() == t.Sel.Name {
						return SVal{V: base.V.(Struct).F[i].(Struct).F[j], T: est.Field(j).Type()}
					}
				}
			}
		}
	}
	specErr("selector .%s on %s", t.Sel.Name, bt)
	return SVal{}
}

func (env *specEnv) indexExpr(t *ast.IndexExpr) SVal {
	c := env.c()
	base := env.eval(t.X)
	i := env.asInt64(env.toType(env.eval(t.Index), types.Typ[types.Int]))
	switch u := base.T.Underlying().(type) {
	case *types.Slice:
		s := base.V.(Slice)
		p := Ptr{s.P.R, c.Add(s.P.O, c.Mul(i, c.Const(64, uint64(sizeof(u.Elem())))))}
		return SVal{V: c.Load(env.heap, p, 0, u.Elem()), T: u.Elem()}
	case *types.Basic:
		if u.Info()&types.IsString != 0 {
			s := base.V.(Str)
			st := &State{heap: *env.heap}
			return SVal{V: Scalar{T: env.e.loadStrByte(st, s, i)}, T: types.Typ[types.Uint8]}
		}
	case *types.Array:
		a := base.V.(Arr)
		if i.IsConst() && i.Val < uint64(len(a.E)) {
			return SVal{V: a.E[i.Val], T: u.Elem()}
		}
		r := a.E[len(a.E)-1]
		for j := len(a.E) - 2; j >= 0; j-- {
			r = c.IteVal(c.Eq(i, c.Const(64, uint64(j))), a.E[j], r)
		}
		return SVal{V: r, T: u.Elem()}
	case *types.Pointer:
		if at, ok := u.Elem().Underlying().(*types.Array); ok {
			p := toPtr(base.V)
			q := Ptr{p.R, c.Add(p.O, c.Mul(i, c.Const(64, uint64(sizeof(at.Elem())))))}
			return SVal{V: c.Load(env.heap, q, 0, at.Elem()), T: at.Elem()}
		}
	}
	specErr("index on %s", base.T)
	return SVal{}
}

func (env *specEnv) sliceExpr(t *ast.SliceExpr) SVal {
	c := env.c()
	base := env.eval(t.X)
	var lo, hi *Term
	if t.Low != nil {
		lo = env.asInt64(env.toType(env.eval(t.Low), types.Typ[types.Int]))
	} else {
		lo = c.Const(64, 0)
	}
	switch u := base.T.Underlying().(type) {
	case *types.Slice:
		s := base.V.(Slice)
		hi = s.Len
		if t.High != nil {
			hi = env.asInt64(env.toType(env.eval(t.High), types.Typ[types.Int]))
		}
		es := uint64(sizeof(u.Elem()))
		return SVal{V: Slice{Ptr{s.P.R, c.Add(s.P.O, c.Mul(lo, c.Const(64, es)))}, c.Sub(hi, lo), c.Sub(s.Cap, lo)}, T: base.T}
	case *types.Basic:
		s := base.V.(Str)
		hi = s.Len
		if t.High != nil {
			hi = env.asInt64(env.toType(env.eval(t.High), types.Typ[types.Int]))
		}
		return SVal{V: Str{Ptr{s.P.R, c.Add(s.P.O, lo)}, c.Sub(hi, lo)}, T: base.T}
	}
	specErr("slice of %s", base.T)
	return SVal{}
}

func (env *specEnv) binary(t *ast.BinaryExpr) SVal {
	c := env.c()
	boolT := types.Typ[types.Bool]
	switch t.Op {
	case token.LAND:
		return SVal{V: Scalar{T: c.And(env.boolTerm(env.eval(t.X)), env.boolTerm(env.eval(t.Y)))}, T: boolT}
	case token.LOR:
		return SVal{V: Scalar{T: c.Or(env.boolTerm(env.eval(t.X)), env.boolTerm(env.eval(t.Y)))}, T: boolT}
	}
	a, b := env.eval(t.X), env.eval(t.Y)
	// shifts: the result has the left operand's type
	if t.Op == token.SHL || t.Op == token.SHR {
		if a.T == nil && b.T == nil {
			n, _ := constant.Uint64Val(constant.ToInt(b.K))
			return SVal{K: constant.Shift(constant.ToInt(a.K), t.Op, uint(n))}
		}
		if a.T == nil {
			a = env.toType(a, types.Typ[types.Int])
		}
		w, signed, _ := intInfo(a.T)
		var cnt *Term
		if b.T == nil {
			n, _ := constant.Uint64Val(constant.ToInt(b.K))
			cnt = c.Const(w, n)
			if n >= uint64(w) {
				if t.Op == token.SHR && signed {
					return SVal{V: Scalar{T: c.Ashr(a.V.(Scalar).T, c.Const(w, uint64(w-1)))}, T: a.T}
				}
				return SVal{V: Scalar{T: c.Const(w, 0)}, T: a.T}
			}
		} else {
			c64 := c.Resize(b.V.(Scalar).T, 64, false)
			big := c.Uge(c64, c.Const(64, uint64(w)))
			k := c.Resize(c64, w, false)
			x := a.V.(Scalar).T
			var r *Term
			switch {
			case t.Op == token.SHL:
				r = c.Ite(big, c.Const(w, 0), c.Shl(x, k))
			case signed:
				r = c.Ite(big, c.Ashr(x, c.Const(w, uint64(w-1))), c.Ashr(x, k))
			default:
				r = c.Ite(big, c.Const(w, 0), c.Lshr(x, k))
			}
			return SVal{V: Scalar{T: r}, T: a.T}
		}
		x := a.V.(Scalar).T
		switch {
		case t.Op == token.SHL:
			return SVal{V: Scalar{T: c.Shl(x, cnt)}, T: a.T}
		case signed:
			return SVal{V: Scalar{T: c.Ashr(x, cnt)}, T: a.T}
		}
		return SVal{V: Scalar{T: c.Lshr(x, cnt)}, T: a.T}
	}
	// untyped constants
	if a.T == nil && b.T == nil {
		switch t.Op {
		case token.EQL, token.NEQ, token.LSS, token.LEQ, token.GTR, token.GEQ:
			return SVal{V: Scalar{T: c.Bool(constant.Compare(a.K, t.Op, b.K))}, T: boolT}
		case token.QUO:
			return SVal{K: constant.BinaryOp(constant.ToInt(a.K), token.QUO_ASSIGN, constant.ToInt(b.K))}
		}
		return SVal{K: constant.BinaryOp(a.K, t.Op, b.K)}
	}
	// nil comparisons
	if isNilSV(a) || isNilSV(b) {
		o := a
		if isNilSV(a) {
			o = b
		}
		var r *Term
		switch v := o.V.(type) {
		case Ptr:
			r = c.IsNil(v)
		case Slice:
			r = c.IsNil(v.P)
		case Iface:
			r = c.Eq(v.Typ, c.Const(TypW, 0))
		case FuncV:
			r = c.IsNil(v.P)
		default:
			specErr("nil comparison on %T", o.V)
		}
		if t.Op == token.NEQ {
			r = c.Not(r)
		}
		return SVal{V: Scalar{T: r}, T: boolT}
	}
	if a.T == nil {
		a = env.toType(a, b.T)
	}
	if b.T == nil {
		b = env.toType(b, a.T)
	}
	switch t.Op {
	case token.EQL, token.NEQ:
		if sa, ok := a.V.(Scalar); ok {
			if sb, ok := b.V.(Scalar); ok && sa.T.S != sb.T.S {
				specErr("operand types differ in %s: %s vs %s", types.ExprString(t), a.T, b.T)
			}
		}
		st := &State{heap: *env.heap}
		r := env.e.eqValues(st, a.V, b.V, a.T, b.T)
		if t.Op == token.NEQ {
			r = c.Not(r)
		}
		return SVal{V: Scalar{T: r}, T: boolT}
	}
	if isBool(a.T) {
		specErr("operator %s on booleans", t.Op)
	}
	w, signed, ok := intInfo(a.T)
	w2, _, ok2 := intInfo(b.T)
	if !ok || !ok2 {
		specErr("operator %s on %s, %s", t.Op, a.T, b.T)
	}
	x, y := a.V.(Scalar).T, b.V.(Scalar).T
	if w != w2 {
		specErr("operand widths differ in %s: %s vs %s", types.ExprString(t), a.T, b.T)
	}
	var r *Term
	switch t.Op {
	case token.ADD:
		r = c.Add(x, y)
	case token.SUB:
		r = c.Sub(x, y)
	case token.MUL:
		r = c.Mul(x, y)
	case token.QUO:
		if signed {
			r = c.SDiv(x, y)
		} else {
			r = c.UDiv(x, y)
		}
	case token.REM:
		if signed {
			r = c.SRem(x, y)
		} else {
			r = c.URem(x, y)
		}
	case token.AND:
		r = c.BAnd(x, y)
	case token.OR:
		r = c.BOr(x, y)
	case token.XOR:
		r = c.BXor(x, y)
	case token.AND_NOT:
		r = c.BAnd(x, c.BNot(y))
	case token.LSS, token.LEQ, token.GTR, token.GEQ:
		var b *Term
		switch {
		case t.Op == token.LSS && signed:
			b = c.Slt(x, y)
		case t.Op == token.LSS:
			b = c.Ult(x, y)
		case t.Op == token.LEQ && signed:
			b = c.Sle(x, y)
		case t.Op == token.LEQ:
			b = c.Ule(x, y)
		case t.Op == token.GTR && signed:
			b = c.Slt(y, x)
		case t.Op == token.GTR:
			b = c.Ult(y, x)
		case signed:
			b = c.Sle(y, x)
		default:
			b = c.Ule(y, x)
		}
		return SVal{V: Scalar{T: b}, T: boolT}
	default:
		specErr("operator %s", t.Op)
	}
	return SVal{V: Scalar{T: r}, T: a.T}
}

func isNilSV(v SVal) bool {
	b, ok := v.T.(*types.Basic)
	return ok && b.Kind() == types.UntypedNil
}

func (env *specEnv) call(t *ast.CallExpr) SVal {
	c := env.c()
	boolT := types.Typ[types.Bool]
	intT := types.Typ[types.Int]
	// conversion?
	if ty := env.typeOfExpr(t.Fun); ty != nil && len(t.Args) == 1 {
		if id, ok := t.Fun.(*ast.Ident); !ok || (env.vars[id.Name].V == nil && env.lookupPure(id.Name) == nil) {
			return env.convert(env.eval(t.Args[0]), ty)
		}
	}
	name := ""
	switch f := t.Fun.(type) {
	case *ast.Ident:
		name = f.Name
	case *ast.SelectorExpr:
		if id, ok := f.X.(*ast.Ident); ok {
			name = id.Name + "." + f.Sel.Name
		}
	}
	switch name {
	case "imp__":
		return SVal{V: Scalar{T: c.Implies(env.boolTerm(env.eval(t.Args[0])), env.boolTerm(env.eval(t.Args[1])))}, T: boolT}
	case "iff__":
		return SVal{V: Scalar{T: c.Eq(env.boolTerm(env.eval(t.Args[0])), env.boolTerm(env.eval(t.Args[1])))}, T: boolT}
	case "ite":
		cond := env.boolTerm(env.eval(t.Args[0]))
		a, b := env.eval(t.Args[1]), env.eval(t.Args[2])
		if a.T == nil && b.T == nil {
			a = env.toType(a, intT)
		}
		if a.T == nil {
			a = env.toType(a, b.T)
		}
		if b.T == nil {
			b = env.toType(b, a.T)
		}
		return SVal{V: c.IteVal(cond, a.V, b.V), T: a.T}
	case "len":
		v := env.eval(t.Args[0])
		switch x := v.V.(type) {
		case Slice:
			return SVal{V: Scalar{T: x.Len}, T: intT}
		case Str:
			return SVal{V: Scalar{T: x.Len}, T: intT}
		case Arr:
			return SVal{V: Scalar{T: c.Const(64, uint64(len(x.E)))}, T: intT}
		}
		specErr("len of %T", v.V)
	case "cap":
		v := env.eval(t.Args[0])
		if x, ok := v.V.(Slice); ok {
			return SVal{V: Scalar{T: x.Cap}, T: intT}
		}
		specErr("cap of %T", v.V)
	case "old":
		if env.old == nil {
			specErr("old() outside a two-state clause")
		}
		sub := *env
		sub.heap = env.old
		r := sub.eval(t.Args[0])
		env.newFacts = append(env.newFacts, sub.newFacts[len(env.newFacts):]...)
		return r
	case "fresh":
		v := env.eval(t.Args[0])
		r := regionOf(v.V)
		if r == nil {
			specErr("fresh() of %T", v.V)
		}
		if env.assume {
			if env.freshAlloc != nil {
				// one allocation per region term within one contract application: two clauses that both call
				// the same pointer fresh must not name two different regions (that would make the case vacuous)
				if env.freshMemo == nil {
					env.freshMemo = map[*Term]*Term{}
				}
				fr, ok := env.freshMemo[r]
				if !ok {
					fr = env.freshAlloc()
					env.freshMemo[r] = fr
				}
				return SVal{V: Scalar{T: c.Eq(r, fr)}, T: boolT}
			}
			return SVal{V: Scalar{T: c.Eq(r, env.e.newRegion())}, T: boolT}
		}
		return SVal{V: Scalar{T: c.Uge(r, c.Const(RgnW, FreshBase))}, T: boolT}
	case "same":
		// same backing pointer
		a, b := env.eval(t.Args[0]), env.eval(t.Args[1])
		return SVal{V: Scalar{T: c.PtrEq(dataPtr(a.V), dataPtr(b.V))}, T: boolT}
	case "windowif":
		// windowif(c, p, n): c ==> window(p, n), with the extent recorded under the condition c when assumed
		cond := env.boolTerm(env.eval(t.Args[0]))
		pv := env.eval(t.Args[1])
		n := env.asInt64(env.toType(env.eval(t.Args[2]), intT))
		p := dataPtr(pv.V)
		if env.assume {
			env.e.pendingExt = append(env.e.pendingExt, extent{R: p.R, Lo: p.O, Hi: c.Add(p.O, n), Cond: cond})
			return SVal{V: Scalar{T: c.Implies(cond, c.And(c.Sle(c.Const(64, 0), n), c.Slt(n, c.Const(64, 1<<40)), c.Ult(p.O, c.Const(64, 1<<47)),
				c.Implies(c.Slt(c.Const(64, 0), n), c.Not(c.IsNil(p)))))}, T: boolT}
		}
		var alts []*Term
		for _, x := range env.ext {
			off, size := c.Sub(p.O, x.Lo), c.Sub(x.Hi, x.Lo)
			in := c.And(c.Eq(p.R, x.R), c.Ule(off, size), c.Ule(n, c.Sub(size, off)))
			if x.Cond != nil {
				in = c.And(x.Cond, in)
			}
			alts = append(alts, in)
		}
		alts = append(alts, c.Eq(n, c.Const(64, 0)))
		return SVal{V: Scalar{T: c.Implies(cond, c.And(c.Sle(c.Const(64, 0), n), c.Or(alts...)))}, T: boolT}
	case "dyntype":
		// dyntype(x, T): the dynamic type of interface value x is T
		v := env.eval(t.Args[0])
		iv, ok := v.V.(Iface)
		if !ok {
			specErr("dyntype of non-interface")
		}
		ty := env.typeOfExpr(t.Args[1])
		if ty == nil {
			specErr("dyntype: unknown type")
		}
		return SVal{V: Scalar{T: c.Eq(iv.Typ, c.Const(TypW, uint64(env.e.typeID(ty))))}, T: boolT}
	case "boxed":
		// boxed(x, T): the value of dynamic type T held by interface value x (meaningful when dyntype(x, T))
		v := env.eval(t.Args[0])
		iv, ok := v.V.(Iface)
		if !ok {
			specErr("boxed of non-interface")
		}
		ty := env.typeOfExpr(t.Args[1])
		if ty == nil {
			specErr("boxed: unknown type")
		}
		if isPointerShaped(ty) {
			return SVal{V: iv.P, T: ty}
		}
		return SVal{V: c.Load(env.heap, iv.P, 0, ty), T: ty}
	case "window":
		// window(p, n): the n bytes at pointer p are valid memory. Assumed: recorded as an extent;
		// proved: must lie within memory known to be valid.
		pv := env.eval(t.Args[0])
		n := env.asInt64(env.toType(env.eval(t.Args[1]), intT))
		p := dataPtr(pv.V)
		if env.assume {
			env.e.pendingExt = append(env.e.pendingExt, extent{R: p.R, Lo: p.O, Hi: c.Add(p.O, n)})
			return SVal{V: Scalar{T: c.And(c.Sle(c.Const(64, 0), n), c.Slt(n, c.Const(64, 1<<40)), c.Ult(p.O, c.Const(64, 1<<47)))}, T: boolT}
		}
		var alts []*Term
		for _, x := range env.ext {
			off, size := c.Sub(p.O, x.Lo), c.Sub(x.Hi, x.Lo)
			in := c.And(c.Eq(p.R, x.R), c.Ule(off, size), c.Ule(n, c.Sub(size, off)))
			if x.Cond != nil {
				in = c.And(x.Cond, in)
			}
			alts = append(alts, in)
		}
		alts = append(alts, c.Eq(n, c.Const(64, 0)))
		return SVal{V: Scalar{T: c.And(c.Sle(c.Const(64, 0), n), c.Or(alts...))}, T: boolT}
	case "disjoint":
		// the memory spans of two slices/strings do not overlap (cap-extent for slices)
		a, b := env.eval(t.Args[0]), env.eval(t.Args[1])
		ar, alo, ahi := env.span(a)
		br, blo, bhi := env.span(b)
		return SVal{V: Scalar{T: c.Or(c.Ne(ar, br), c.Ule(ahi, blo), c.Ule(bhi, alo))}, T: boolT}
	case "calls":
		// ghost: calls made so far through function-typed parameters
		t0 := c.Const(64, 0)
		if env.st != nil && env.st.calls != nil {
			t0 = env.st.calls
		}
		return SVal{V: Scalar{T: t0}, T: intT}
	case "headcalls":
		t0 := c.Const(64, 0)
		if env.headCalls != nil {
			t0 = env.headCalls
		}
		return SVal{V: Scalar{T: t0}, T: intT}
	case "fieldat":
		// fieldat(ptr): view an unsafe.Pointer taken from a FieldIDMap as *FieldDescriptor
		pv := env.eval(t.Args[0])
		ft := env.lookupType("FieldDescriptor")
		if ft == nil {
			specErr("fieldat: no FieldDescriptor type in scope")
		}
		return SVal{V: toPtr(pv.V), T: types.NewPointer(ft)}
	case "samerg":
		// same region identifier, nil included
		a, b := env.eval(t.Args[0]), env.eval(t.Args[1])
		return SVal{V: Scalar{T: c.Eq(regionOf(a.V), regionOf(b.V))}, T: boolT}
	case "sameregion":
		a, b := env.eval(t.Args[0]), env.eval(t.Args[1])
		// same allocation (nil shares an allocation with nothing)
		return SVal{V: Scalar{T: c.And(c.Eq(regionOf(a.V), regionOf(b.V)), c.Ne(regionOf(a.V), c.Const(RgnW, 0)))}, T: boolT}
	case "offset":
		a := env.eval(t.Args[0])
		return SVal{V: Scalar{T: dataPtr(a.V).O}, T: intT}
	case "byteat":
		// byte at an unsafe pointer plus offset
		pv := env.eval(t.Args[0])
		i := env.asInt64(env.toType(env.eval(t.Args[1]), types.Typ[types.Int]))
		p := toPtr(pv.V)
		return SVal{V: Scalar{T: c.loadCell(env.heap, K8, Ptr{p.R, c.Add(p.O, i)}, 0)}, T: types.Typ[types.Uint8]}
	case "ptradd":
		// ptradd(p, k): the unsafe pointer p moved by k bytes (k may be negative)
		pv := env.eval(t.Args[0])
		k := env.asInt64(env.toType(env.eval(t.Args[1]), intT))
		pp := toPtr(pv.V)
		return SVal{V: Ptr{pp.R, c.Add(pp.O, k)}, T: pv.T}
	case "bytes":
		// bytes(p, n): the []byte view of the n bytes at an unsafe pointer (what rt.BytesFrom(p, n, n) denotes)
		pv := env.eval(t.Args[0])
		n := env.asInt64(env.toType(env.eval(t.Args[1]), intT))
		return SVal{V: Slice{P: toPtr(pv.V), Len: n, Cap: n}, T: types.NewSlice(types.Typ[types.Uint8])}
	case "bits":
		v := env.eval(t.Args[0])
		w, _, ok := intInfo(v.T)
		if !ok {
			specErr("bits() of %s", v.T)
		}
		ut := types.Typ[types.Uint64]
		if w == 32 {
			ut = types.Typ[types.Uint32]
		}
		return SVal{V: Scalar{T: v.V.(Scalar).T}, T: ut}
	case "zx":
		// zero-extend to int
		v := env.eval(t.Args[0])
		return SVal{V: Scalar{T: c.Resize(v.V.(Scalar).T, 64, false)}, T: intT}
	case "sx":
		v := env.eval(t.Args[0])
		return SVal{V: Scalar{T: c.Resize(v.V.(Scalar).T, 64, true)}, T: intT}
	case "forall__", "exists__":
		id := t.Args[0].(*ast.Ident).Name
		bv := c.FreshVar("q_"+id, BV(64))
		sub := *env
		sub.bound = map[string]*Term{}
		for k, v := range env.bound {
			sub.bound[k] = v
		}
		sub.bound[id] = bv
		body := sub.boolTerm(sub.eval(t.Args[1]))
		env.newFacts = append(env.newFacts, sub.newFacts[len(env.newFacts):]...)
		if name == "exists__" {
			specErr("exists not supported")
		}
		// marker application; resolved by the clause-level translation (see clauseTerm)
		q := &quantMark{bound: bv, body: body}
		mk := c.FreshVar("forall", BoolSort())
		env.e.quants[mk] = q
		return SVal{V: Scalar{T: mk}, T: boolT}
	case "implements":
		specErr("implements not supported")
	case "isfloat":
	}
	// pure / rec spec function
	if pf := env.lookupPure(name); pf != nil {
		return env.callPure(pf, t.Args)
	}
	specErr("unknown function %q in specification", name)
	return SVal{}
}

// span: region and byte extent [lo, hi) of a slice (by length) or string.
func (env *specEnv) span(v SVal) (r, lo, hi *Term) {
	c := env.c()
	switch x := v.V.(type) {
	case Slice:
		es := uint64(sizeof(v.T.Underlying().(*types.Slice).Elem()))
		return x.P.R, x.P.O, c.Add(x.P.O, c.Mul(x.Len, c.Const(64, es)))
	case Str:
		return x.P.R, x.P.O, c.Add(x.P.O, x.Len)
	}
	specErr("span of %T", v.V)
	return
}

type quantMark struct {
	bound *Term
	body  *Term
}

func regionOf(v Value) *Term {
	switch x := v.(type) {
	case Ptr:
		return x.R
	case Slice:
		return x.P.R
	case Str:
		return x.P.R
	case Iface:
		return x.P.R
	case FuncV:
		return x.P.R
	}
	return nil
}
func dataPtr(v Value) Ptr {
	switch x := v.(type) {
	case Ptr:
		return x
	case Slice:
		return x.P
	case Str:
		return x.P
	case Iface:
		return x.P
	}
	specErr("no data pointer in %T", v)
	return Ptr{}
}

func (env *specEnv) lookupPure(name string) *PureFn {
	if env.pkg != nil {
		if pf, ok := env.e.Pures[env.pkg.Path()+"."+name]; ok {
			return pf
		}
	}
	if i := strings.Index(name, "."); i > 0 {
		if p := env.importedPkg(name[:i]); p != nil {
			if pf, ok := env.e.Pures[p.Path()+"."+name[i+1:]]; ok {
				return pf
			}
		}
	}
	// unique bare name across packages
	var found *PureFn
	for k, pf := range env.e.Pures {
		if strings.HasSuffix(k, "."+name) {
			if found != nil && found != pf {
				return nil
			}
			found = pf
		}
	}
	return found
}

func (env *specEnv) callPure(pf *PureFn, args []ast.Expr) SVal {
	if len(args) != len(pf.Params) {
		specErr("%s: %d arguments, want %d", pf.Name, len(args), len(pf.Params))
	}
	if env.depth > 40 {
		specErr("%s: unfolding too deep", pf.Name)
	}
	penv := &specEnv{e: env.e, heap: env.heap, old: env.old, assume: env.assume, bound: map[string]*Term{}, depth: env.depth + 1, rc: env.rc}
	if p, ok := env.e.P.All[pf.PkgPath]; ok {
		penv.pkg = p.Types
	}
	penv.vars = map[string]SVal{}
	for i, pp := range pf.Params {
		pt := penv.parseTypeString(pp.Type)
		av := env.eval(args[i])
		if av.T == nil {
			av = env.toType(av, pt)
		}
		penv.vars[pp.Name] = SVal{V: av.V, T: pt}
	}
	if pf.Rec {
		return env.e.recApp(pf, penv)
	}
	r := penv.eval(pf.Body.Expr)
	env.newFacts = append(env.newFacts, penv.newFacts...)
	if pf.Res != "" {
		rt := penv.parseTypeString(pf.Res)
		if r.T == nil {
			r = penv.toType(r, rt)
		}
		r.T = rt
	}
	return r
}

func (env *specEnv) convert(v SVal, to types.Type) SVal {
	c := env.c()
	if v.T == nil {
		return env.toType(v, to)
	}
	fw, fs, fok := intInfo(v.T)
	tw, _, tok := intInfo(to)
	_ = fw
	if fok && tok {
		return SVal{V: Scalar{T: c.Resize(v.V.(Scalar).T, tw, fs)}, T: to}
	}
	// same-shape conversions (named types)
	return SVal{V: v.V, T: to}
}

func parserParseExpr(s string) (ast.Expr, error) { return parseExprCached(s) }

// ---------------------------------------------------------------------------------------------
// Recursive specification functions (DESIGN §4): an application is an uninterpreted-function term over
// the byte heap and the leaf terms of the arguments; its defining equation is instantiated by the
// generator for the applications occurring in a query, to a fixed depth (fuel).

type recInfo struct {
	pf   *PureFn
	vars map[string]SVal
	heap Heap
}

// recSynRegion: synthetic region ids under which the byte arrays of slice/string arguments are mounted
// when a defining equation is evaluated (the application itself carries the inner arrays, so that writes
// to other regions do not change it).
const recSynRegion = 0x7ff000

// flattenRec lists the argument terms of a rec application: scalars as they are, slices/strings as
// (inner byte array, offset, length).
func flattenRec(c *Ctx, h *Heap, v Value, out *[]*Term) {
	switch x := v.(type) {
	case Scalar:
		*out = append(*out, x.T)
	case Slice:
		*out = append(*out, c.Select(h.K[K8], x.P.R), x.P.O, x.Len)
	case Str:
		*out = append(*out, c.Select(h.K[K8], x.P.R), x.P.O, x.Len)
	default:
		specErr("rec function argument of kind %T", v)
	}
}

func (e *Engine) recApp(pf *PureFn, penv *specEnv) SVal {
	c := e.C
	var args []*Term
	for _, pp := range pf.Params {
		flattenRec(c, penv.heap, penv.vars[pp.Name].V, &args)
	}
	rt := penv.parseTypeString(pf.Res)
	var sort *Sort
	if isBool(rt) {
		sort = BoolSort()
	} else {
		w, _, ok := intInfo(rt)
		if !ok {
			specErr("rec function %s: result type %s", pf.Name, rt)
		}
		sort = BV(w)
	}
	name := "rec." + pf.PkgPath + "." + pf.Name
	app := c.App(name, sort, args...)
	if e.recFns == nil {
		e.recFns = map[string]*PureFn{}
	}
	e.recFns[name] = pf
	return SVal{V: Scalar{T: app}, T: rt}
}

// recInfoFor rebuilds the argument binding of an application from its argument terms.
func (e *Engine) recInfoFor(app *Term) *recInfo {
	if e.recApps == nil {
		e.recApps = map[*Term]*recInfo{}
	}
	if ri := e.recApps[app]; ri != nil {
		return ri
	}
	pf := e.recFns[app.Name]
	if pf == nil {
		return nil
	}
	c := e.C
	penv := &specEnv{e: e, bound: map[string]*Term{}}
	if p, ok := e.P.All[pf.PkgPath]; ok {
		penv.pkg = p.Types
	}
	var h Heap
	for k := 0; k < NKinds; k++ {
		h.K[k] = c.Var("recheap."+kindName[k], heapSort(k))
	}
	vars := map[string]SVal{}
	i := 0
	ok := true
	func() {
		defer func() {
			if r := recover(); r != nil {
				ok = false
			}
		}()
		for n, pp := range pf.Params {
			pt := penv.parseTypeString(pp.Type)
			isSl := false
			if _, yes := pt.Underlying().(*types.Slice); yes {
				isSl = true
			}
			if isSl || isString(pt) {
				rg := c.Const(RgnW, uint64(recSynRegion+n))
				h.K[K8] = c.Store(h.K[K8], rg, app.Args[i])
				if isSl {
					vars[pp.Name] = SVal{V: Slice{Ptr{rg, app.Args[i+1]}, app.Args[i+2], app.Args[i+2]}, T: pt}
				} else {
					vars[pp.Name] = SVal{V: Str{Ptr{rg, app.Args[i+1]}, app.Args[i+2]}, T: pt}
				}
				i += 3
			} else {
				vars[pp.Name] = SVal{V: Scalar{T: app.Args[i]}, T: pt}
				i++
			}
		}
	}()
	if !ok || i != len(app.Args) {
		return nil
	}
	ri := &recInfo{pf: pf, vars: vars, heap: h}
	e.recApps[app] = ri
	return ri
}

// recDefinition returns app == body(args), evaluating the body once (its recursive calls become new
// applications).
func (e *Engine) recDefinition(app *Term) *Term {
	ri := e.recInfoFor(app)
	if ri == nil {
		return nil
	}
	if d, ok := e.recDefs[app]; ok {
		return d
	}
	if e.recDefs == nil {
		e.recDefs = map[*Term]*Term{}
	}
	h := ri.heap
	penv := &specEnv{e: e, heap: &h, bound: map[string]*Term{}, vars: ri.vars}
	if p, ok := e.P.All[ri.pf.PkgPath]; ok {
		penv.pkg = p.Types
	}
	var def *Term
	func() {
		defer func() {
			if r := recover(); r != nil {
				def = nil
			}
		}()
		body := penv.eval(ri.pf.Body.Expr)
		rt := penv.parseTypeString(ri.pf.Res)
		if body.T == nil {
			body = penv.toType(body, rt)
		}
		def = e.C.Eq(app, body.V.(Scalar).T)
	}()
	e.pendingWF = e.pendingWF[:0]
	e.pendingVals = e.pendingVals[:0]
	e.recDefs[app] = def
	return def
}

// unfoldRecs adds the defining equations of the rec applications occurring in the given terms, to the
// given depth.
func (e *Engine) unfoldRecs(terms []*Term, fuel int) []*Term {
	var out []*Term
	seen := map[*Term]bool{}
	work := terms
	for d := 0; d < fuel && len(work) > 0; d++ {
		var apps []*Term
		Walk(work, func(t *Term) {
			if t.Op == OApp && !seen[t] && strings.HasPrefix(t.Name, "rec.") {
				seen[t] = true
				apps = append(apps, t)
			}
		})
		work = nil
		for _, a := range apps {
			if def := e.recDefinition(a); def != nil {
				out = append(out, def)
				work = append(work, def)
			}
		}
	}
	return out
}
