package eng

import (
	"bufio"
	"fmt"
	"go/ast"
	"go/parser"
	"go/types"
	"os"
	"path/filepath"
	"regexp"
	"sort"
	"strings"
)

// Contract files (DESIGN §4): comment-only Go files, one per package, lines starting with `//@`.
//
//	//@ spec <func>                    <func> as go/ssa prints it relative to its package:
//	                                   ConsumeVarint | (*BinaryProtocol).skipn | BinaryDecoder.DecodeBool
//	//@   props C20 C06
//	//@   requires <expr>
//	//@   ensures [label:] <expr>
//	//@   modifies <lvalue>, <lvalue>…
//	//@   allocates <expr>             upper bound (bytes) for every input-dependent allocation
//	//@   decreases <expr>
//	//@   trusted                      contract assumed, body not verified
//	//@   loop N
//	//@     invariant <expr>
//	//@     decreases <expr>
//	//@ pure name(a T, b U) R = <expr>
//	//@ rec  name(a T, …) R = <expr>
//	//@ typeinv <Type> as x = <expr>
//	//@ global nonnil <name> …
//
// A trailing backslash continues a clause on the next //@ line.

type Clause struct {
	Label    string
	Text     string
	Expr     ast.Expr
	Line     string
	Cond     ast.Expr // modifies items: "item if cond"
	Thorough bool     // proved (and, for invariants, assumed) only in the thorough tier; callers may rely on it in both tiers
	Defined  bool     // ensures only: checked at the return points where every identifier it names is defined (locals); at least one such point must exist
	Local    bool     // ensures only: proved for the function itself, NOT assumed at its call sites (keeps callers' queries small)
}

// CaseSplit: "cases <expr> in lo..hi" — the proof is split by the value of an integer expression of
// the entry state (one run per value plus one run for "outside the range").
type CaseSplit struct {
	Cl     *Clause
	Lo, Hi int64
	Bool   bool // "cases bool <expr>": two runs
}

type LoopSpec struct {
	N          int
	Invs       []*Clause
	Steps      []*Clause // proved at every back edge (phis still denote the values at the loop head)
	Unfolds    []*Clause // rec-function applications whose defining equation is assumed at the loop head
	Decreases  *Clause
	AssumeTerm string // "terminates-assumed <reason>": termination of this loop is an ASSUMPTION (reported), not proved
}

type FuncSpec struct {
	Key         string
	PkgPath     string
	Props       []string
	Requires    []*Clause
	Ensures     []*Clause
	Modifies    []*Clause
	Allocates   *Clause
	Decreases   *Clause
	Trusted     bool
	NoTypeInv   bool
	Loops       map[int]*LoopSpec
	Src         string
	PanicsOK    bool
	Cases       []*CaseSplit
	Splits      []*Clause // callers fork on these pre-state conditions when using the contract
	Unfolds     []*Clause // rec-function applications (entry state) whose defining equation is assumed
	Fuel        int
	MaxPaths    int                  // path budget for this function when larger than the default (clause "paths N")
	Timeout     int                  // per-solver timeout (seconds) for this function's obligations, when larger than the tier's
	Preserves   map[string][]*Clause // function-typed parameter -> regions its calls are assumed to leave unchanged
	CalleeReq   map[string][]*Clause // function-typed parameter -> conditions proved at each call through it (arguments a0, a1, …)
	IsLemma     bool
	LemmaParams []PureParam
	CallAssumes []*CallAssume // ASSUMPTIONS made at direct calls to named callees (unchecked; reported in the evidence)
}

type GlobalFact struct {
	Key     string
	PkgPath string
	Cl      *Clause
}

// CallAssume: "callsite <callee> assumes [label:] <expr over a0.. and, optionally, r0>". The condition is assumed
// before the call when it mentions only arguments, after it when it mentions the result.
type CallAssume struct {
	Callee string
	Cl     *Clause
	Post   bool
	Check  bool // "callsite <callee> requires …": an OBLIGATION at every direct call (over a0.., the root's parameters and its named locals), not an assumption
}

type PureParam struct {
	Name string
	Type string
}

type PureFn struct {
	Name    string
	PkgPath string
	Params  []PureParam
	Res     string
	Body    *Clause
	Rec     bool
}

type TypeInv struct {
	PkgPath string
	Type    string // e.g. *BinaryProtocol
	Var     string
	Body    *Clause
}

type SpecSet struct {
	Funcs       map[string]*FuncSpec
	Pures       map[string]*PureFn // key pkgpath.name
	TypeInvs    []*TypeInv
	GlobalFacts []*GlobalFact
	NonNil      map[string]bool // pkgpath.global
	Frozen      map[string]bool
	Files       []string
	templates   map[string]*specTemplate
}

func NewSpecSet() *SpecSet {
	return &SpecSet{Funcs: map[string]*FuncSpec{}, Pures: map[string]*PureFn{}, NonNil: map[string]bool{}, Frozen: map[string]bool{}}
}

// LoadSpecFile parses one contract file for package pkgPath.
func (ss *SpecSet) LoadSpecFile(path, pkgPath string) error {
	f, err0 := os.Open(path)
	if err0 != nil {
		return err0
	}
	defer f.Close()
	ss.Files = append(ss.Files, path)
	sc := bufio.NewScanner(f)
	sc.Buffer(make([]byte, 1<<20), 1<<20)
	var lines []string
	var nums []int
	var err error
	ln := 0
	pending := ""
	pendingLn := 0
	for sc.Scan() {
		ln++
		t := strings.TrimSpace(sc.Text())
		if !strings.HasPrefix(t, "//@") {
			continue
		}
		t = strings.TrimSpace(strings.TrimPrefix(t, "//@"))
		if i := strings.Index(t, " //"); i >= 0 {
			t = strings.TrimSpace(t[:i])
		}
		if pending != "" {
			t = pending + " " + t
		} else {
			pendingLn = ln
		}
		if strings.HasSuffix(t, "\\") {
			pending = strings.TrimSpace(strings.TrimSuffix(t, "\\"))
			continue
		}
		pending = ""
		if t == "" {
			continue
		}
		lines = append(lines, t)
		nums = append(nums, pendingLn)
	}
	lines, nums, err = expandTemplates(lines, nums, ss)
	if err != nil {
		return fmt.Errorf("%s: %v", path, err)
	}
	var cur *FuncSpec
	var curLoop *LoopSpec
	for i, t := range lines {
		where := fmt.Sprintf("%s:%d", filepath.Base(filepath.Dir(path))+"/"+filepath.Base(path), nums[i])
		word, rest := splitWord(t)
		mk := func(s string) (*Clause, error) {
			cl := &Clause{Line: where}
			s = strings.TrimSpace(s)
			if strings.HasPrefix(s, "thorough ") {
				cl.Thorough = true
				s = strings.TrimSpace(strings.TrimPrefix(s, "thorough "))
			}
			if strings.HasPrefix(s, "local ") {
				cl.Local = true
				s = strings.TrimSpace(strings.TrimPrefix(s, "local "))
			}
			if strings.HasPrefix(s, "defined ") {
				cl.Defined = true
				s = strings.TrimSpace(strings.TrimPrefix(s, "defined "))
			}
			// optional label "name: expr"
			if j := strings.Index(s, ":"); j > 0 && isIdent(s[:j]) && !strings.HasPrefix(s[j:], "::") {
				cl.Label = s[:j]
				s = strings.TrimSpace(s[j+1:])
			}
			cl.Text = s
			ex, err := parser.ParseExpr(prepSpec(s))
			if err != nil {
				return nil, fmt.Errorf("%s: cannot parse %q (as %q): %v", where, s, prepSpec(s), err)
			}
			cl.Expr = ex
			return cl, nil
		}
		switch word {
		case "spec":
			name := strings.TrimSpace(rest)
			key := pkgPath + "." + name
			if strings.Contains(name, "/") { // fully qualified external
				key = name
			}
			cur = &FuncSpec{Key: key, PkgPath: pkgPath, Loops: map[int]*LoopSpec{}, Src: where}
			curLoop = nil
			if _, dup := ss.Funcs[key]; dup {
				return fmt.Errorf("%s: duplicate spec %s", where, key)
			}
			ss.Funcs[key] = cur
		case "lemma":
			lp, rp := strings.Index(rest, "("), strings.LastIndex(rest, ")")
			if lp < 0 || rp < lp {
				return fmt.Errorf("%s: bad lemma head", where)
			}
			name := strings.TrimSpace(rest[:lp])
			key := pkgPath + ".lemma:" + name
			cur = &FuncSpec{Key: key, PkgPath: pkgPath, Loops: map[int]*LoopSpec{}, Src: where, IsLemma: true}
			for _, ps := range splitTop(rest[lp+1:rp], ',') {
				ps = strings.TrimSpace(ps)
				if ps == "" {
					continue
				}
				n, ty := splitWord(ps)
				cur.LemmaParams = append(cur.LemmaParams, PureParam{n, strings.TrimSpace(ty)})
			}
			for j := len(cur.LemmaParams) - 1; j >= 0; j-- {
				if cur.LemmaParams[j].Type == "" && j+1 < len(cur.LemmaParams) {
					cur.LemmaParams[j].Type = cur.LemmaParams[j+1].Type
				}
			}
			curLoop = nil
			ss.Funcs[key] = cur
		case "props":
			cur.Props = strings.Fields(rest)
		case "trusted":
			cur.Trusted = true
		case "notypeinv":
			cur.NoTypeInv = true
		case "callee":
			// callee <param> preserves <item>, <item>…   (ASSUMPTION about function-typed parameters)
			w1, r1 := splitWord(rest)
			w2, r2 := splitWord(r1)
			if cur != nil && w2 == "requires" {
				cl, err := mk(r2)
				if err != nil {
					return err
				}
				if cur.CalleeReq == nil {
					cur.CalleeReq = map[string][]*Clause{}
				}
				cur.CalleeReq[w1] = append(cur.CalleeReq[w1], cl)
				continue
			}
			if cur == nil || w2 != "preserves" {
				return fmt.Errorf("%s: bad callee clause", where)
			}
			if cur.Preserves == nil {
				cur.Preserves = map[string][]*Clause{}
			}
			for _, part := range splitTop(r2, ',') {
				cl, err := mk(part)
				if err != nil {
					return err
				}
				cur.Preserves[w1] = append(cur.Preserves[w1], cl)
			}
		case "callsite":
			w1, r1 := splitWord(rest)
			w2, r2 := splitWord(r1)
			if cur == nil || (w2 != "assumes" && w2 != "requires") {
				return fmt.Errorf("%s: bad callsite clause", where)
			}
			cl, err := mk(r2)
			if err != nil {
				return err
			}
			if w2 == "requires" {
				cur.CallAssumes = append(cur.CallAssumes, &CallAssume{Callee: w1, Cl: cl, Check: true})
				break
			}
			cur.CallAssumes = append(cur.CallAssumes, &CallAssume{Callee: w1, Cl: cl, Post: regexp.MustCompile(`\br[0-9]\b`).MatchString(r2)})
		case "split":
			if cur == nil {
				return fmt.Errorf("%s: split outside spec", where)
			}
			cl, err := mk(rest)
			if err != nil {
				return err
			}
			cur.Splits = append(cur.Splits, cl)
		case "unfold":
			cl, err := mk(rest)
			if err != nil {
				return err
			}
			if curLoop != nil {
				curLoop.Unfolds = append(curLoop.Unfolds, cl)
			} else if cur != nil {
				cur.Unfolds = append(cur.Unfolds, cl)
			}
		case "timeout":
			if cur != nil {
				fmt.Sscanf(rest, "%d", &cur.Timeout)
			}
		case "paths":
			if cur != nil {
				fmt.Sscanf(rest, "%d", &cur.MaxPaths)
			}
		case "fuel":
			if cur != nil {
				fmt.Sscanf(rest, "%d", &cur.Fuel)
			}
		case "terminates-assumed":
			if curLoop == nil {
				return fmt.Errorf("%s: terminates-assumed outside a loop", where)
			}
			curLoop.AssumeTerm = strings.TrimSpace(rest)
			if curLoop.AssumeTerm == "" {
				curLoop.AssumeTerm = "(no reason given)"
			}
		case "step":
			if curLoop == nil {
				return fmt.Errorf("%s: step outside loop", where)
			}
			cl, err := mk(rest)
			if err != nil {
				return err
			}
			curLoop.Steps = append(curLoop.Steps, cl)
		case "requires", "ensures", "modifies", "allocates", "decreases", "invariant":
			if cur == nil {
				return fmt.Errorf("%s: clause outside spec", where)
			}
			if word == "modifies" {
				for _, part := range splitTop(rest, ',') {
					condTxt := ""
					if j := indexTop(part, " if "); j >= 0 {
						condTxt = part[j+4:]
						part = part[:j]
					}
					cl, err := mk(part)
					if err != nil {
						return err
					}
					if condTxt != "" {
						cc, err := mk(condTxt)
						if err != nil {
							return err
						}
						cl.Cond = cc.Expr
						cl.Text += " if " + cc.Text
					}
					cur.Modifies = append(cur.Modifies, cl)
				}
				continue
			}
			cl, err := mk(rest)
			if err != nil {
				return err
			}
			switch word {
			case "requires":
				cur.Requires = append(cur.Requires, cl)
			case "ensures":
				cur.Ensures = append(cur.Ensures, cl)
			case "allocates":
				cur.Allocates = cl
			case "decreases":
				if curLoop != nil {
					curLoop.Decreases = cl
				} else {
					cur.Decreases = cl
				}
			case "invariant":
				if curLoop == nil {
					return fmt.Errorf("%s: invariant outside loop", where)
				}
				curLoop.Invs = append(curLoop.Invs, cl)
			}
		case "cases":
			if strings.HasPrefix(rest, "bool ") && cur != nil {
				cl, err := mk(strings.TrimPrefix(rest, "bool "))
				if err != nil {
					return err
				}
				cur.Cases = append(cur.Cases, &CaseSplit{Cl: cl, Bool: true})
				continue
			}
			j := strings.LastIndex(rest, " in ")
			if j < 0 || cur == nil {
				return fmt.Errorf("%s: bad cases clause", where)
			}
			cl, err := mk(rest[:j])
			if err != nil {
				return err
			}
			cs := &CaseSplit{Cl: cl}
			if _, err := fmt.Sscanf(strings.TrimSpace(rest[j+4:]), "%d..%d", &cs.Lo, &cs.Hi); err != nil {
				return fmt.Errorf("%s: bad cases range", where)
			}
			cur.Cases = append(cur.Cases, cs)
		case "loop":
			var n int
			fmt.Sscanf(rest, "%d", &n)
			curLoop = &LoopSpec{N: n}
			cur.Loops[n] = curLoop
		case "pure", "rec":
			// name(a T, b U) R = expr
			eq := strings.Index(rest, "=")
			// find the '=' that is not part of '==' etc: first " = "
			eq = strings.Index(rest, " = ")
			if eq < 0 {
				return fmt.Errorf("%s: bad pure definition", where)
			}
			head, body := strings.TrimSpace(rest[:eq]), strings.TrimSpace(rest[eq+3:])
			lp, rp := strings.Index(head, "("), strings.LastIndex(head, ")")
			if lp < 0 || rp < lp {
				return fmt.Errorf("%s: bad pure head %q", where, head)
			}
			pf := &PureFn{Name: strings.TrimSpace(head[:lp]), PkgPath: pkgPath, Res: strings.TrimSpace(head[rp+1:]), Rec: word == "rec"}
			for _, ps := range splitTop(head[lp+1:rp], ',') {
				ps = strings.TrimSpace(ps)
				if ps == "" {
					continue
				}
				n, ty := splitWord(ps)
				pf.Params = append(pf.Params, PureParam{n, strings.TrimSpace(ty)})
			}
			// parameters declared as "a, b T" get the type of the next typed one
			for j := len(pf.Params) - 1; j >= 0; j-- {
				if pf.Params[j].Type == "" && j+1 < len(pf.Params) {
					pf.Params[j].Type = pf.Params[j+1].Type
				}
			}
			cl, err := mk(body)
			if err != nil {
				return err
			}
			pf.Body = cl
			ss.Pures[pkgPath+"."+pf.Name] = pf
			cur, curLoop = nil, nil
		case "typeinv":
			// typeinv *BinaryProtocol as p = expr
			eq := strings.Index(rest, " = ")
			if eq < 0 {
				return fmt.Errorf("%s: bad typeinv", where)
			}
			head := strings.Fields(rest[:eq])
			if len(head) != 3 || head[1] != "as" {
				return fmt.Errorf("%s: bad typeinv head", where)
			}
			cl, err := mk(rest[eq+3:])
			if err != nil {
				return err
			}
			ss.TypeInvs = append(ss.TypeInvs, &TypeInv{PkgPath: pkgPath, Type: head[0], Var: head[2], Body: cl})
			cur, curLoop = nil, nil
		case "global":
			fs := strings.Fields(rest)
			if len(fs) < 2 {
				return fmt.Errorf("%s: bad global decl", where)
			}
			if fs[0] == "fact" {
				// global fact <var>: <expr>   — ASSUMED content of a package variable that is written only by
				// its package initialiser (the write-once part is checked mechanically, the content is not)
				r := strings.TrimSpace(strings.TrimPrefix(strings.TrimSpace(rest), "fact"))
				i := strings.Index(r, ":")
				if i < 0 {
					return fmt.Errorf("%s: bad global fact", where)
				}
				name := strings.TrimSpace(r[:i])
				cl, err := mk(strings.TrimSpace(r[i+1:]))
				if err != nil {
					return err
				}
				ss.GlobalFacts = append(ss.GlobalFacts, &GlobalFact{Key: pkgPath + "." + name, PkgPath: pkgPath, Cl: cl})
				cur, curLoop = nil, nil
				continue
			}
			for _, g := range fs[1:] {
				k := g
				if !strings.Contains(g, "/") && !strings.Contains(g, ".") {
					k = pkgPath + "." + g
				}
				switch fs[0] {
				case "nonnil":
					ss.NonNil[k] = true
				case "frozen":
					ss.Frozen[k] = true
				}
			}
			cur, curLoop = nil, nil
		default:
			return fmt.Errorf("%s: unknown directive %q", where, word)
		}
	}
	return nil
}

type specTemplate struct {
	params []string
	lines  []string
}

// expandTemplates handles `template name(p, …)` … `end` blocks and `use name(args)` lines by textual
// substitution of whole identifiers. Templates are shared by all files loaded into the SpecSet.
func expandTemplates(lines []string, nums []int, ss *SpecSet) ([]string, []int, error) {
	if ss.templates == nil {
		ss.templates = map[string]*specTemplate{}
	}
	var out []string
	var on []int
	var cur *specTemplate
	for i, t := range lines {
		word, rest := splitWord(t)
		switch {
		case word == "template":
			lp, rp := strings.Index(rest, "("), strings.LastIndex(rest, ")")
			if lp < 0 || rp < lp {
				return nil, nil, fmt.Errorf("line %d: bad template head", nums[i])
			}
			cur = &specTemplate{}
			for _, p := range splitTop(rest[lp+1:rp], ',') {
				cur.params = append(cur.params, strings.TrimSpace(p))
			}
			ss.templates[strings.TrimSpace(rest[:lp])] = cur
		case word == "end" && cur != nil:
			cur = nil
		case cur != nil:
			cur.lines = append(cur.lines, t)
		case word == "use":
			lp, rp := strings.Index(rest, "("), strings.LastIndex(rest, ")")
			if lp < 0 || rp < lp {
				return nil, nil, fmt.Errorf("line %d: bad use", nums[i])
			}
			tp := ss.templates[strings.TrimSpace(rest[:lp])]
			if tp == nil {
				return nil, nil, fmt.Errorf("line %d: unknown template %q", nums[i], rest[:lp])
			}
			args := splitTop(rest[lp+1:rp], ',')
			if len(args) != len(tp.params) {
				return nil, nil, fmt.Errorf("line %d: template arity", nums[i])
			}
			for _, l := range tp.lines {
				out = append(out, substIdents(l, tp.params, args))
				on = append(on, nums[i])
			}
		default:
			out = append(out, t)
			on = append(on, nums[i])
		}
	}
	return out, on, nil
}

func substIdents(s string, params, args []string) string {
	var sb strings.Builder
	i := 0
	isId := func(b byte) bool {
		return b == '_' || b >= 'a' && b <= 'z' || b >= 'A' && b <= 'Z' || b >= '0' && b <= '9'
	}
	for i < len(s) {
		if isId(s[i]) && (i == 0 || !isId(s[i-1])) {
			j := i
			for j < len(s) && isId(s[j]) {
				j++
			}
			w := s[i:j]
			rep := w
			for k, p := range params {
				if p == w {
					rep = "(" + strings.TrimSpace(args[k]) + ")"
				}
			}
			// labels ("name:") must stay identifiers
			if rep != w && j < len(s) && s[j] == ':' && !strings.HasPrefix(s[j:], "::") {
				rep = w
			}
			sb.WriteString(rep)
			i = j
			continue
		}
		sb.WriteByte(s[i])
		i++
	}
	return sb.String()
}

func splitWord(s string) (string, string) {
	s = strings.TrimSpace(s)
	i := strings.IndexAny(s, " \t")
	if i < 0 {
		return s, ""
	}
	return s[:i], strings.TrimSpace(s[i+1:])
}

func isIdent(s string) bool {
	if s == "" {
		return false
	}
	for i, r := range s {
		if !(r == '_' || r >= 'a' && r <= 'z' || r >= 'A' && r <= 'Z' || i > 0 && r >= '0' && r <= '9') {
			return false
		}
	}
	return true
}

// splitTop splits s at sep occurring outside parentheses/brackets.
func splitTop(s string, sep byte) []string {
	var out []string
	depth, start := 0, 0
	for i := 0; i < len(s); i++ {
		switch s[i] {
		case '(', '[', '{':
			depth++
		case ')', ']', '}':
			depth--
		case sep:
			if depth == 0 {
				out = append(out, s[start:i])
				start = i + 1
			}
		}
	}
	out = append(out, s[start:])
	return out
}

// prepSpec rewrites the specification sugar into plain Go expression syntax:
//
//	a ==> b        →  imp__(a, b)         (right associative, lower than ||)
//	a <==> b       →  iff__(a, b)         (lowest)
//	forall i :: e  →  forall__(i, e)      (scope extends to the end of the enclosing group)
//	exists i :: e  →  exists__(i, e)
//	c ? a : b is not supported; use ite(c, a, b)
func prepSpec(s string) string {
	s = strings.TrimSpace(s)
	// process bracketed groups recursively
	var sb strings.Builder
	for i := 0; i < len(s); i++ {
		ch := s[i]
		if ch == '(' || ch == '[' {
			cl := matchClose(s, i)
			if cl < 0 {
				sb.WriteString(s[i:])
				break
			}
			inner := s[i+1 : cl]
			parts := splitTop(inner, ',')
			for j := range parts {
				if ch == '(' {
					parts[j] = prepSpec(parts[j])
				} else {
					// inside brackets keep ':' of slice expressions intact
					sub := splitTop(parts[j], ':')
					for k := range sub {
						if strings.TrimSpace(sub[k]) != "" {
							sub[k] = prepSpec(sub[k])
						}
					}
					parts[j] = strings.Join(sub, ":")
				}
			}
			sb.WriteByte(ch)
			sb.WriteString(strings.Join(parts, ", "))
			sb.WriteByte(s[cl])
			i = cl
			continue
		}
		sb.WriteByte(ch)
	}
	s = sb.String()
	// quantifier prefix
	for _, q := range []string{"forall", "exists"} {
		if strings.HasPrefix(s, q+" ") {
			if j := indexTop(s, "::"); j > 0 {
				v := strings.TrimSpace(s[len(q):j])
				v = strings.Fields(v)[0]
				return q + "__(" + v + ", " + prepSpec(s[j+2:]) + ")"
			}
		}
	}
	if j := indexTop(s, "<==>"); j >= 0 {
		return "iff__(" + prepSpec(s[:j]) + ", " + prepSpec(s[j+4:]) + ")"
	}
	if j := indexTop(s, "==>"); j >= 0 {
		return "imp__(" + prepSpec(s[:j]) + ", " + prepSpec(s[j+3:]) + ")"
	}
	return s
}

func matchClose(s string, i int) int {
	depth := 0
	for j := i; j < len(s); j++ {
		switch s[j] {
		case '(', '[':
			depth++
		case ')', ']':
			depth--
			if depth == 0 {
				return j
			}
		}
	}
	return -1
}

// indexTop finds the first occurrence of tok outside brackets (and not as part of "<==>" when
// looking for "==>").
func indexTop(s, tok string) int {
	depth := 0
	for i := 0; i+len(tok) <= len(s); i++ {
		switch s[i] {
		case '(', '[':
			depth++
		case ')', ']':
			depth--
		}
		if depth == 0 && strings.HasPrefix(s[i:], tok) {
			if tok == "==>" && i > 0 && s[i-1] == '<' {
				continue
			}
			return i
		}
	}
	return -1
}

// LoadSpecs loads contract files: for each loaded package of the module the file
// <repo>/<pkg>/contracts_verif.go if present, else the mirror <specDir>/<rel>/contracts_verif.go;
// external packages: <specDir>/ext/<pkgpath>/contracts.go.
func LoadSpecs(p *Program, specDir string) (*SpecSet, map[string]string, error) {
	ss := NewSpecSet()
	src := map[string]string{}
	var paths []string
	for path := range p.All {
		paths = append(paths, path)
	}
	sort.Strings(paths)
	for _, path := range paths {
		var cands []string
		if path == ModPath || strings.HasPrefix(path, ModPath+"/") {
			rel := strings.TrimPrefix(strings.TrimPrefix(path, ModPath), "/")
			// the mirror in /verif/specs is authoritative (tools/sync_specs.sh copies it into /repo as the
			// guarded hook file); the repository copy is used when the mirror is absent
			cands = append(cands, filepath.Join(specDir, rel, "contracts_verif.go"), filepath.Join(p.RepoDir, rel, "contracts_verif.go"))
		} else {
			cands = append(cands, filepath.Join(specDir, "ext", path, "contracts.go"))
		}
		for i, c := range cands {
			if _, err := os.Stat(c); err == nil {
				if err := ss.LoadSpecFile(c, path); err != nil {
					return nil, nil, err
				}
				if i == 0 && len(cands) == 2 {
					src[path] = "mirror"
					if rb, err := os.ReadFile(cands[1]); err == nil {
						if mb, _ := os.ReadFile(c); string(rb) == string(mb) {
							src[path] = "mirror (identical to the hook file in /repo)"
						} else {
							src[path] = "mirror (hook file in /repo differs: run tools/sync_specs.sh)"
						}
					}
				} else if len(cands) == 2 {
					src[path] = "repo"
				} else {
					src[path] = "ext"
				}
				break
			}
		}
	}
	return ss, src, nil
}

var _ = types.Typ
