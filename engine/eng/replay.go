package eng

import (
	"bytes"
	"context"
	"encoding/json"
	"fmt"
	"go/types"
	"os"
	"os/exec"
	"path/filepath"
	"regexp"
	"sort"
	"strconv"
	"strings"
	"time"

	"golang.org/x/tools/go/ssa"
)

// Replay of solver models against the real code (DESIGN §6.1): the model's inputs are turned into an
// in-package Go test injected with `go test -overlay` (nothing is written into the repository); the
// real function is called under recover. Panic-class obligations are confirmed by the panic itself;
// post-conditions are confirmed by asking the solver whether the *observed* outputs are consistent
// with the negated post-condition on exactly these inputs.

var panicKinds = map[string]bool{"idx": true, "slc": true, "nil": true, "panic": true, "div": true, "mk": true, "asrt": true, "shl": true}

func parseBV(s string) (uint64, bool) {
	switch {
	case s == "true":
		return 1, true
	case s == "false":
		return 0, true
	case strings.HasPrefix(s, "#x"):
		v, err := strconv.ParseUint(s[2:], 16, 64)
		return v, err == nil
	case strings.HasPrefix(s, "#b"):
		v, err := strconv.ParseUint(s[2:], 2, 64)
		return v, err == nil
	}
	return 0, false
}

type replayGen struct {
	e       *Engine
	pkg     *types.Package
	imports map[string]string // path -> name
	model   map[string]uint64
	ok      bool
	why     string
}

func (g *replayGen) qual(p *types.Package) string {
	if p == g.pkg {
		return ""
	}
	g.imports[p.Path()] = p.Name()
	return p.Name()
}

func (g *replayGen) val(name string) (uint64, bool) {
	v, ok := g.model[name]
	return v, ok
}

// goValue renders a Go expression constructing the model's value for a parameter.
func (g *replayGen) goValue(name string, t types.Type, depth int) string {
	ts := types.TypeString(t, g.qual)
	switch u := t.Underlying().(type) {
	case *types.Basic:
		switch {
		case u.Info()&types.IsBoolean != 0:
			v, _ := g.val(name)
			return fmt.Sprintf("%s(%v)", ts, v != 0)
		case u.Info()&types.IsString != 0:
			n, _ := g.val(name + ".len")
			if n > 4096 {
				g.ok, g.why = false, "string too long in model"
				return `""`
			}
			b := make([]byte, n)
			for i := range b {
				if v, ok := g.val(fmt.Sprintf("%s[%d]", name, i)); ok {
					b[i] = byte(v)
				}
			}
			return fmt.Sprintf("%s(%q)", ts, string(b))
		case u.Info()&types.IsFloat != 0:
			v, _ := g.val(name)
			if u.Kind() == types.Float32 {
				g.imports["math"] = "math"
				return fmt.Sprintf("%s(math.Float32frombits(0x%x))", ts, v)
			}
			g.imports["math"] = "math"
			return fmt.Sprintf("%s(math.Float64frombits(0x%x))", ts, v)
		case u.Info()&types.IsInteger != 0:
			v, _ := g.val(name)
			w, signed, _ := intInfo(t)
			if signed {
				return fmt.Sprintf("%s(%d)", ts, sx(v, w))
			}
			return fmt.Sprintf("%s(%d)", ts, v&mask(w))
		}
	case *types.Slice:
		if sizeof(u.Elem()) != 1 {
			// element contents are not part of the witness: zero-valued elements of the model's length
			n, _ := g.val(name + ".len")
			cp, _ := g.val(name + ".cap")
			if n > 4096 {
				g.ok, g.why = false, "slice too long in model"
				return "nil"
			}
			if cp > 8192 || cp < n {
				cp = n
			}
			return fmt.Sprintf("make(%s, %d, %d)", ts, n, cp)
		}
		n, _ := g.val(name + ".len")
		cp, _ := g.val(name + ".cap")
		if n > 4096 {
			g.ok, g.why = false, "slice too long in model"
			return "nil"
		}
		if cp > 8192 || cp < n {
			cp = n
		}
		var sb strings.Builder
		fmt.Fprintf(&sb, "func() %s { b := make(%s, %d, %d); ", ts, ts, n, cp)
		for i := uint64(0); i < n && i < 48; i++ {
			if v, ok := g.val(fmt.Sprintf("%s[%d]", name, i)); ok && v != 0 {
				fmt.Fprintf(&sb, "b[%d] = %d; ", i, v)
			}
		}
		sb.WriteString("return b }()")
		return sb.String()
	case *types.Struct:
		if u.NumFields() == 0 {
			return ts + "{}"
		}
		var fs []string
		for i := 0; i < u.NumFields(); i++ {
			f := u.Field(i)
			fs = append(fs, fmt.Sprintf("%s: %s", f.Name(), g.goValue(name+"."+f.Name(), f.Type(), depth+1)))
		}
		return ts + "{" + strings.Join(fs, ", ") + "}"
	case *types.Pointer:
		if v, ok := g.val(name + ".nil"); ok && v != 0 {
			return fmt.Sprintf("(%s)(nil)", ts)
		}
		if _, ok := u.Elem().Underlying().(*types.Struct); ok && depth < 2 {
			return "&" + g.goValue("(*"+name+")", u.Elem(), depth+1)
		}
	}
	g.ok, g.why = false, "parameter type "+ts+" cannot be synthesised"
	return "nil"
}

var resultRe = regexp.MustCompile(`(?m)^DGV-OUT (\S+) (\S+)$`)

// MakeReplayer installs the replay procedure.
func (e *Engine) MakeReplayer(verif string, timeoutSec int) {
	e.Replayer = func(o *Oblig) (map[string]interface{}, bool, string) {
		inputs := map[string]interface{}{}
		fn := e.P.Funcs[o.Fn]
		if fn == nil || fn.Pkg == nil {
			return inputs, false, "no replay: not a function of the loaded program"
		}
		if !strings.HasPrefix(fn.Pkg.Pkg.Path(), ModPath) {
			return inputs, false, "no replay: function outside the repository"
		}
		// small witness: re-solve with short inputs
		model := e.smallModel(o)
		if model == nil {
			return inputs, false, "no replay: no small witness (inputs of length <= 40) found"
		}
		names := make([]string, 0, len(model))
		for k := range model {
			names = append(names, k)
		}
		sort.Strings(names)
		for _, k := range names {
			if !strings.Contains(k, "[") || model[k] != 0 {
				inputs[k] = fmt.Sprintf("0x%x", model[k])
			}
		}
		g := &replayGen{e: e, pkg: fn.Pkg.Pkg, imports: map[string]string{"fmt": "fmt", "testing": "testing"}, model: model, ok: true}
		var argExprs []string
		for i, p := range fn.Params {
			n := p.Name()
			if n == "" {
				n = fmt.Sprintf("arg%d", i)
			}
			argExprs = append(argExprs, g.goValue(n, p.Type(), 0))
		}
		if !g.ok {
			return inputs, false, "no replay: " + g.why
		}
		src := g.harness(fn, argExprs)
		out, err := runOverlayTest(e.P.RepoDir, fn.Pkg.Pkg.Path(), src, timeoutSec)
		log := "harness:\n" + src + "\noutput:\n" + out
		if err != nil {
			log += "\nerror: " + err.Error()
		}
		panicked := strings.Contains(out, "DGV-PANIC")
		if panicKinds[o.Kind] {
			return inputs, panicked, log
		}
		if panicked && (o.Kind == "pre" || o.Kind == "mem" || o.Kind == "frame" || o.Kind == "callpre") {
			// the callee's precondition fails and the real code panics on the witness
			return inputs, true, log
		}
		if o.Kind == "post" && !panicked && strings.Contains(out, "DGV-DONE") {
			obs := map[string]uint64{}
			for _, m := range resultRe.FindAllStringSubmatch(out, -1) {
				if v, err := strconv.ParseUint(m[2], 0, 64); err == nil {
					obs[m[1]] = v
				}
			}
			ok, l2 := e.confirmPost(o, model, obs)
			return inputs, ok, log + "\n" + l2
		}
		return inputs, false, log
	}
}

// harness renders the in-package test.
func (g *replayGen) harness(fn *ssa.Function, args []string) string {
	var sb strings.Builder
	fmt.Fprintf(&sb, "package %s\n\nimport (\n", g.pkg.Name())
	var ips []string
	for p := range g.imports {
		ips = append(ips, p)
	}
	sort.Strings(ips)
	for _, p := range ips {
		fmt.Fprintf(&sb, "\t%s %q\n", g.imports[p], p)
	}
	sb.WriteString(")\n\nfunc TestDgvReplay(t *testing.T) {\n\tdefer func() {\n\t\tif r := recover(); r != nil {\n\t\t\tfmt.Printf(\"DGV-PANIC %v\\n\", r)\n\t\t}\n\t}()\n")
	call := ""
	sig := fn.Signature
	var plain []string
	for i := range args {
		fmt.Fprintf(&sb, "\ta%d := %s\n", i, args[i])
		plain = append(plain, fmt.Sprintf("a%d", i))
	}
	if sig.Recv() != nil {
		call = fmt.Sprintf("a0.%s(%s)", fn.Name(), strings.Join(plain[1:], ", "))
	} else {
		call = fmt.Sprintf("%s(%s)", fn.Name(), strings.Join(plain, ", "))
	}
	rs := sig.Results()
	var rn []string
	for i := 0; i < rs.Len(); i++ {
		rn = append(rn, fmt.Sprintf("r%d", i))
	}
	if len(rn) > 0 {
		fmt.Fprintf(&sb, "\t%s := %s\n", strings.Join(rn, ", "), call)
	} else {
		fmt.Fprintf(&sb, "\t%s\n", call)
	}
	for i := 0; i < rs.Len(); i++ {
		fmt.Fprintf(&sb, "\t_ = r%d\n", i)
		g.emitOut(&sb, fmt.Sprintf("r%d", i), fmt.Sprintf("r%d", i), rs.At(i).Type())
	}
	sb.WriteString("\tfmt.Println(\"DGV-DONE\")\n}\n")
	return sb.String()
}

func (g *replayGen) emitOut(sb *strings.Builder, name, expr string, t types.Type) {
	switch u := t.Underlying().(type) {
	case *types.Basic:
		switch {
		case u.Info()&types.IsBoolean != 0:
			fmt.Fprintf(sb, "\tif %s { fmt.Println(\"DGV-OUT %s 1\") } else { fmt.Println(\"DGV-OUT %s 0\") }\n", expr, name, name)
		case u.Info()&types.IsString != 0:
			fmt.Fprintf(sb, "\tfmt.Printf(\"DGV-OUT %s.len %%d\\n\", len(%s))\n\tfor i := 0; i < len(%s) && i < 64; i++ { fmt.Printf(\"DGV-OUT %s[%%d] %%d\\n\", i, %s[i]) }\n", name, expr, expr, name, expr)
		case u.Info()&types.IsFloat != 0:
			g.imports["math"] = "math"
			if u.Kind() == types.Float32 {
				fmt.Fprintf(sb, "\tfmt.Printf(\"DGV-OUT %s %%d\\n\", math.Float32bits(float32(%s)))\n", name, expr)
			} else {
				fmt.Fprintf(sb, "\tfmt.Printf(\"DGV-OUT %s %%d\\n\", math.Float64bits(float64(%s)))\n", name, expr)
			}
		case u.Info()&types.IsInteger != 0:
			w, _, _ := intInfo(t)
			fmt.Fprintf(sb, "\tfmt.Printf(\"DGV-OUT %s %%d\\n\", uint64(%s)&0x%x)\n", name, expr, mask(w))
		}
	case *types.Slice:
		if sizeof(u.Elem()) == 1 {
			fmt.Fprintf(sb, "\tfmt.Printf(\"DGV-OUT %s.len %%d\\n\", len(%s))\n\tfor i := 0; i < len(%s) && i < 64; i++ { fmt.Printf(\"DGV-OUT %s[%%d] %%d\\n\", i, %s[i]) }\n", name, expr, expr, name, expr)
		}
	case *types.Interface:
		fmt.Fprintf(sb, "\tif %s == nil { fmt.Println(\"DGV-OUT %s.nil 1\") } else { fmt.Println(\"DGV-OUT %s.nil 0\") }\n", expr, name, name)
	}
}

// runOverlayTest injects src as an extra test file of package pkgPath and runs it.
func runOverlayTest(repo, pkgPath, src string, timeoutSec int) (string, error) {
	dir, err := os.MkdirTemp("", "dgv-replay-")
	if err != nil {
		return "", err
	}
	defer os.RemoveAll(dir)
	rel := strings.TrimPrefix(strings.TrimPrefix(pkgPath, ModPath), "/")
	testFile := filepath.Join(dir, "r_test.go")
	if err := os.WriteFile(testFile, []byte(src), 0o644); err != nil {
		return "", err
	}
	ov := map[string]map[string]string{"Replace": {filepath.Join(repo, rel, "zz_dgv_replay_test.go"): testFile}}
	ob, _ := json.Marshal(ov)
	ovFile := filepath.Join(dir, "ov.json")
	os.WriteFile(ovFile, ob, 0o644)
	ctx, cancel := context.WithTimeout(context.Background(), time.Duration(timeoutSec+60)*time.Second)
	defer cancel()
	cmd := exec.CommandContext(ctx, "bash", "-c", fmt.Sprintf("ulimit -v 8000000; cd %q && go test -overlay %q -vet=off -count=1 -timeout %ds -run '^TestDgvReplay$' -v ./%s", repo, ovFile, timeoutSec, rel))
	cmd.Env = append(os.Environ(), "GOFLAGS=-mod=mod", "GOPROXY=off", "GOSUMDB=off", "GOTOOLCHAIN=local")
	var buf bytes.Buffer
	cmd.Stdout = &buf
	cmd.Stderr = &buf
	err = cmd.Run()
	out := buf.String()
	if len(out) > 20000 {
		out = out[:20000]
	}
	return out, err
}

// smallModel re-solves the obligation's query with every input length bounded, returning the named
// model values, or nil.
func (e *Engine) smallModel(o *Oblig) map[string]uint64 {
	if o.SMTFile == "" {
		return nil
	}
	b, err := os.ReadFile(o.SMTFile)
	if err != nil {
		return nil
	}
	script := string(b)
	i := strings.LastIndex(script, "(check-sat)")
	if i < 0 {
		return nil
	}
	var extra strings.Builder
	for j, it := range o.Inputs {
		if strings.HasSuffix(it.Name, ".len") || strings.HasSuffix(it.Name, ".cap") {
			fmt.Fprintf(&extra, "(assert (bvule gv%d #x0000000000000028))\n", j)
		}
	}
	// gv definitions precede check-sat already (EmitSMT); bounds must follow them
	small := script[:i] + extra.String() + script[i:]
	f := o.SMTFile + ".small.smt2"
	os.WriteFile(f, []byte(small), 0o644)
	defer os.Remove(f)
	for _, s := range Solvers[:2] {
		v, out, _ := runSolver(s, f, 20)
		if v == "sat" {
			m := map[string]uint64{}
			for _, mm := range gvRe.FindAllStringSubmatch(out, -1) {
				idx, _ := strconv.Atoi(mm[1])
				if idx < len(o.Inputs) {
					if val, ok := parseBV(mm[2]); ok {
						m[o.Inputs[idx].Name] = val
					}
				}
			}
			return m
		}
		if v == "unsat" {
			return nil
		}
	}
	return nil
}

// confirmPost: is the negated post-condition still satisfiable when the inputs are fixed to the
// witness and the outputs to what the real code returned?
func (e *Engine) confirmPost(o *Oblig, model, obs map[string]uint64) (bool, string) {
	if o.SMTFile == "" || len(o.Outputs) == 0 {
		return false, "confirm: no output terms recorded"
	}
	b, err := os.ReadFile(o.SMTFile)
	if err != nil {
		return false, "confirm: " + err.Error()
	}
	script := string(b)
	i := strings.LastIndex(script, "(check-sat)")
	var extra strings.Builder
	for j, it := range o.Inputs {
		if v, ok := model[it.Name]; ok {
			fmt.Fprintf(&extra, "(assert (= gv%d %s))\n", j, smtLit(it.T, v))
		}
	}
	n := 0
	for j, it := range o.Outputs {
		if v, ok := obs[it.Name]; ok {
			fmt.Fprintf(&extra, "(assert (= gv%d %s))\n", len(o.Inputs)+j, smtLit(it.T, v))
			n++
		}
	}
	if n == 0 {
		return false, "confirm: no observed outputs matched"
	}
	f := o.SMTFile + ".confirm.smt2"
	os.WriteFile(f, []byte(script[:i]+extra.String()+script[i:]), 0o644)
	defer os.Remove(f)
	for _, s := range Solvers[:2] {
		v, _, _ := runSolver(s, f, 30)
		if v == "sat" {
			return true, fmt.Sprintf("confirm: observed outputs (%d values) violate the clause on the witness inputs (%s: sat)", n, s.Name)
		}
		if v == "unsat" {
			return false, "confirm: the real code's outputs satisfy the clause on this witness (model was spurious w.r.t. unconstrained parts)"
		}
	}
	return false, "confirm: solver gave no answer"
}

func smtLit(t *Term, v uint64) string {
	if t.S.K == SBool {
		if v != 0 {
			return "true"
		}
		return "false"
	}
	return smtConst(&Term{Op: OConst, S: t.S, Val: v & mask(t.S.W)})
}
