package eng

import (
	"fmt"
	"go/ast"
	"go/token"
	"go/types"
	"os"
	"sort"

	"golang.org/x/tools/go/ssa"
)

// ---------------------------------------------------------------------------------------------
// Loop discovery

type loopInfo struct {
	head    *ssa.BasicBlock
	body    map[*ssa.BasicBlock]bool
	ordinal int // 1-based, in source order
	pos     token.Pos
	isRange bool // iteration over a map or string (finite by construction)
}

var loopCache = map[*ssa.Function]map[*ssa.BasicBlock]*loopInfo{}

func findLoops(fn *ssa.Function) map[*ssa.BasicBlock]*loopInfo {
	if m, ok := loopCache[fn]; ok {
		return m
	}
	m := map[*ssa.BasicBlock]*loopInfo{}
	for _, b := range fn.Blocks {
		for _, s := range b.Succs {
			if s.Dominates(b) { // back edge b -> s
				li := m[s]
				if li == nil {
					li = &loopInfo{head: s, body: map[*ssa.BasicBlock]bool{s: true}}
					m[s] = li
				}
				// natural loop: nodes reaching b without passing through s
				stack := []*ssa.BasicBlock{b}
				for len(stack) > 0 {
					n := stack[len(stack)-1]
					stack = stack[:len(stack)-1]
					if li.body[n] {
						continue
					}
					li.body[n] = true
					stack = append(stack, n.Preds...)
				}
			}
		}
	}
	var ls []*loopInfo
	for _, li := range m {
		minPos := token.NoPos
		for b := range li.body {
			for _, in := range b.Instrs {
				if p := in.Pos(); p.IsValid() && (minPos == token.NoPos || p < minPos) {
					minPos = p
				}
				if nx, ok := in.(*ssa.Next); ok && b == li.head {
					_ = nx
					li.isRange = true
				}
			}
		}
		li.pos = minPos
		ls = append(ls, li)
	}
	sort.Slice(ls, func(i, j int) bool {
		if ls[i].pos != ls[j].pos {
			return ls[i].pos < ls[j].pos
		}
		return ls[i].head.Index < ls[j].head.Index
	})
	for i, li := range ls {
		li.ordinal = i + 1
	}
	loopCache[fn] = m
	return m
}

// ---------------------------------------------------------------------------------------------
// Mod-set discovery (dry runs)

type modNote struct {
	level int // 0 = cell, 1 = region (kinds of T), 2 = region all kinds, 3 = everything
	R, O  *Term
	T     types.Type
}

type dryRun struct {
	depth    int
	parent   *dryRun
	li       *loopInfo
	fr       *frame
	notes    []modNote
	all      bool
	allPlain bool   // some havoc-all did not come from a call with an assumed frame
	baseRgn  uint32 // regions allocated after this number are born inside the loop
}

func (d *dryRun) each(f func(*dryRun)) {
	for x := d; x != nil; x = x.parent {
		f(x)
	}
}
func (d *dryRun) noteStore(c *Ctx, p Ptr, t types.Type) {
	d.each(func(x *dryRun) { x.notes = append(x.notes, modNote{level: 0, R: p.R, O: p.O, T: t}) })
}
func (d *dryRun) noteRegion(r *Term, t types.Type) {
	d.each(func(x *dryRun) { x.notes = append(x.notes, modNote{level: 1, R: r, T: t}) })
}
func (d *dryRun) noteRegionAll(r *Term) {
	d.each(func(x *dryRun) { x.notes = append(x.notes, modNote{level: 2, R: r}) })
}
func (d *dryRun) noteAll() { d.each(func(x *dryRun) { x.all = true; x.allPlain = true }) }

// noteAllKeeping: everything may change except the root contract's preserved regions.
func (d *dryRun) noteAllKeeping() { d.each(func(x *dryRun) { x.all = true }) }

type modSet struct {
	cells    []modNote
	regions  []modNote
	all      bool
	allPlain bool
	unknown  bool // some havoc-all came from the body itself (a call without a frame, an unsupported construct)
	keys     map[string]bool
}

func (m *modSet) add(n modNote) bool {
	k := fmt.Sprintf("%d/%d/", n.level, n.R.ID)
	if n.level == 0 {
		k += fmt.Sprintf("%d/%s", n.O.ID, types.TypeString(n.T, nil))
	} else if n.level == 1 {
		k += types.TypeString(n.T, nil)
	}
	if m.keys[k] {
		return false
	}
	m.keys[k] = true
	if n.level == 0 {
		m.cells = append(m.cells, n)
	} else {
		m.regions = append(m.regions, n)
	}
	return true
}

type loopCut struct {
	headCalls *Term
	headHeap  Heap
	li        *loopInfo
	invs      []loopInv
	variant   *Term // value at the loop head of the cut iteration (nil: none)
	varText   string
	entrySt   *State
	names     map[string]SVal
}

type loopInv struct {
	name string
	cl   *Clause // nil for generated ones
	gen  func(fr *frame, st *State) *Term
}

// headPhis returns the phi instructions of a block.
func headPhis(b *ssa.BasicBlock) []*ssa.Phi {
	var ps []*ssa.Phi
	for _, in := range b.Instrs {
		ph, ok := in.(*ssa.Phi)
		if !ok {
			break
		}
		ps = append(ps, ph)
	}
	return ps
}

func edgeIndex(b, pred *ssa.BasicBlock) int {
	for i, p := range b.Preds {
		if p == pred {
			return i
		}
	}
	return -1
}

// collectVars collects the leaf variables of a value.
func collectVars(v Value, set map[*Term]bool) {
	var ts []*Term
	switch x := v.(type) {
	case Scalar:
		ts = append(ts, x.T)
		if x.R != nil {
			ts = append(ts, x.R)
		}
	case Ptr:
		ts = append(ts, x.R, x.O)
	case Slice:
		ts = append(ts, x.P.R, x.P.O, x.Len, x.Cap)
	case Str:
		ts = append(ts, x.P.R, x.P.O, x.Len)
	case Iface:
		ts = append(ts, x.Typ, x.P.R, x.P.O)
	case FuncV:
		ts = append(ts, x.P.R, x.P.O)
	case Struct:
		for _, f := range x.F {
			collectVars(f, set)
		}
	case Arr:
		for _, f := range x.E {
			collectVars(f, set)
		}
	case Tuple:
		for _, f := range x.E {
			collectVars(f, set)
		}
	}
	Walk(ts, func(t *Term) {
		if t.Op == OVar {
			set[t] = true
		}
	})
}

func (e *Engine) applyHavoc(fr *frame, st *State, ms *modSet, fresh map[*Term]bool) {
	c := e.C
	if ms.all {
		old := st.heap
		c.havocAll(&st.heap)
		for k := 0; k < NKinds; k++ {
			fresh[st.heap.K[k]] = true
		}
		if !ms.allPlain && e.cur != nil {
			e.restoreKept(st, old)
		}
		if !ms.unknown && e.cur != nil && os.Getenv("DGV_FRAMEHAVOC") != "" {
			// EXPERIMENTAL, off by default (no claimed contract needs it):
			// the mod-set discovery gave up (the body writes through pointers that change with the iterations), but
			// every write of the body is a checked store or a call under contract: it stays inside the root frame
			e.restoreOutsideFrame(fr, st, old)
		}
		return
	}
	for _, n := range ms.regions {
		if n.level == 2 {
			c.havocRegion(&st.heap, n.R)
			continue
		}
		var ks [NKinds]bool
		kindsOf(n.T, &ks)
		for k := 0; k < NKinds; k++ {
			if ks[k] {
				v := c.FreshVar("lr"+kindName[k], innerSort(k))
				fresh[v] = true
				st.heap.K[k] = c.Store(st.heap.K[k], n.R, v)
			}
		}
	}
	for _, n := range ms.cells {
		var as []*Term
		v := c.Fresh(n.T, "lc", false, &as)
		collectVars(v, fresh)
		for _, a := range as {
			st.assume(a)
		}
		c.Store_(&st.heap, Ptr{n.R, n.O}, 0, n.T, v)
	}
}

// restoreOutsideFrame: after a havoc of the whole heap at a loop head, the regions known at that point that
// existed before the call and are not touched by the root contract's modifies set get their contents back.
// Sound because every store and every call under contract inside the function is obliged to stay inside
// that set or inside memory allocated during the call (frame and frame:call obligations) — the function
// verifies only if all of them are discharged. Not applied when the body contains a call without a frame.
func (e *Engine) restoreOutsideFrame(fr *frame, st *State, old Heap) {
	c := e.C
	rc := e.cur
	if rc == nil || rc.spec == nil {
		return
	}
	for _, m := range rc.modRanges {
		if m.R == nil {
			return // the root may write anything
		}
	}
	// candidate regions: everything the function holds a handle to at this point (values computed so far,
	// recorded extents)
	seen := map[*Term]bool{}
	var cands []*Term
	add := func(r *Term) {
		if r == nil || seen[r] || isFreshRegion(r) {
			return
		}
		seen[r] = true
		cands = append(cands, r)
	}
	var walk func(v Value)
	walk = func(v Value) {
		switch x := v.(type) {
		case Ptr:
			add(x.R)
		case Slice:
			add(x.P.R)
		case Str:
			add(x.P.R)
		case Iface:
			add(x.P.R)
		case FuncV:
			for _, b := range x.Bind {
				walk(b)
			}
		case Struct:
			for _, f := range x.F {
				walk(f)
			}
		case Arr:
			for _, f := range x.E {
				walk(f)
			}
		case Tuple:
			for _, f := range x.E {
				walk(f)
			}
		}
	}
	if fr != nil {
		var keys []ssa.Value
		for k := range fr.regs {
			keys = append(keys, k)
		}
		sort.Slice(keys, func(i, j int) bool {
			return keys[i].Pos() < keys[j].Pos() || (keys[i].Pos() == keys[j].Pos() && keys[i].Name() < keys[j].Name())
		})
		for _, k := range keys {
			walk(fr.regs[k])
		}
	}
	for _, x := range st.ext {
		add(x.R)
	}
	if len(cands) > 24 {
		cands = cands[:24]
	}
	// only regions that are literally known (path facts: preconditions, invariants) to be old and different
	// from every region of the root frame are restored — no conditional stores, the heap terms stay small
	known := func(t *Term) bool {
		if t.IsTrue() {
			return true
		}
		v, ok := st.decided(c, t)
		return ok && v
	}
	for _, r := range cands {
		if !known(c.Ult(r, c.Const(RgnW, FreshBase))) {
			continue
		}
		ok := true
		for _, m := range rc.modRanges {
			if !known(c.Ne(r, m.R)) {
				ok = false
				break
			}
		}
		if !ok {
			continue
		}
		for kd := 0; kd < NKinds; kd++ {
			st.heap.K[kd] = c.Store(st.heap.K[kd], r, c.Select(old.K[kd], r))
		}
	}
}

// ---------------------------------------------------------------------------------------------
// Loop entry: invariants hold initially, then cut.

func (e *Engine) loopEnter(fr *frame, li *loopInfo, pred *ssa.BasicBlock, st *State, k cont) {
	c := e.C
	phis := headPhis(li.head)
	pi := edgeIndex(li.head, pred)
	var inVals []Value
	for _, ph := range phis {
		inVals = append(inVals, e.get(fr, ph.Edges[pi]))
	}
	// 1. mod-set discovery by dry runs of the body
	ms := &modSet{keys: map[string]bool{}}
	baseRgn := e.nextRgn
	for iter := 0; iter < 5; iter++ {
		startID := len(c.terms)
		stD := st.clone()
		frD := fr.clone()
		d := &dryRun{parent: fr.dry, li: li, baseRgn: baseRgn, depth: fr.depth}
		frD.dry = d
		fresh := map[*Term]bool{}
		for _, ph := range phis {
			var as []*Term
			v := c.Fresh(ph.Type(), "phi."+ph.Comment, false, &as)
			collectVars(v, fresh)
			frD.regs[ph] = v
		}
		e.applyHavoc(frD, stD, ms, fresh)
		frD.cuts[li.head] = &loopCut{li: li}
		savedPaths := e.cur.paths
		func() {
			defer func() {
				if r := recover(); r != nil {
					if _, ok := r.(Unsupported); ok {
						d.all, d.allPlain = true, true // could not analyse the body: assume it writes anything
						return
					}
					panic(r)
				}
			}()
			e.runFrom(frD, li.head, len(phis), stD, func(*State, []Value) {})
		}()
		e.cur.paths = savedPaths
		changed := false
		if d.all && !ms.all {
			ms.all = true
			changed = true
		}
		if d.all {
			ms.unknown = true
		}
		if d.allPlain && !ms.allPlain {
			ms.allPlain = true
			changed = true
		}
		for _, n := range d.notes {
			// regions born inside the loop body do not exist at the head
			if n.R.IsConst() && n.R.Val > uint64(FreshBase+baseRgn) {
				continue
			}
			if Mentions(n.R, fresh) {
				if !ms.all || !ms.allPlain {
					ms.all, ms.allPlain = true, true
					changed = true
				}
				continue
			}
			if n.level == 0 && (Mentions(n.O, fresh) || mentionsNewVar(n.O, startID)) {
				// the offset depends on this iteration (loop variables, or values made up while running the body)
				n = modNote{level: 1, R: n.R, T: n.T}
			}
			if ms.add(n) {
				changed = true
			}
		}
		e.setRgn(baseRgn + 1000*uint32(iter+1)) // keep dry-run regions disjoint from real ones
		if !changed {
			break
		}
		if iter == 4 {
			ms.all, ms.allPlain = true, true
		}
	}
	e.setRgn(baseRgn + 6000)
	if os.Getenv("DGV_LOOPDBG") != "" && fr.dry == nil {
		fmt.Fprintf(os.Stderr, "LOOP %s loop%d: all=%v allPlain=%v unknown=%v cells=%d regions=%d ext=%d\n", fr.fn.Name(), li.ordinal, ms.all, ms.allPlain, ms.unknown, len(ms.cells), len(ms.regions), len(st.ext))
		for i, n := range ms.cells {
			if i < 12 {
				fmt.Fprintf(os.Stderr, "   cell R=%s O=%s T=%v\n", c.Show(n.R), c.Show(n.O), n.T)
			}
		}
		for _, n := range ms.regions {
			fmt.Fprintf(os.Stderr, "   region level=%d R=%s T=%v\n", n.level, c.Show(n.R), n.T)
		}
	}
	if fr.dry != nil {
		// propagate to the enclosing dry run
		for _, n := range ms.cells {
			fr.dry.notes = append(fr.dry.notes, n)
		}
		for _, n := range ms.regions {
			fr.dry.notes = append(fr.dry.notes, n)
		}
		if ms.all {
			if ms.allPlain {
				fr.dry.noteAll()
			} else {
				fr.dry.noteAllKeeping()
			}
		}
	}
	// 2. invariants
	cut := &loopCut{li: li}
	cut.invs = e.loopInvariants(fr, li)
	// init: evaluate with incoming phi values
	frI := fr.clone()
	for i, ph := range phis {
		frI.regs[ph] = inVals[i]
	}
	for _, inv := range cut.invs {
		t, facts := e.evalInv(frI, li, st, inv, false)
		s2 := st
		if len(facts) > 0 {
			s2 = st.clone()
			s2.facts = append(s2.facts, facts...)
		}
		e.oblige(s2, fr, "inv-init", fmt.Sprintf("loop%d:%s", li.ordinal, inv.name), t, li.pos)
	}
	// 3. cut
	fresh := map[*Term]bool{}
	for _, ph := range phis {
		var as []*Term
		v := c.Fresh(ph.Type(), "phi."+ph.Comment, false, &as)
		for _, a := range as {
			st.assume(a)
		}
		fr.regs[ph] = v
	}
	e.applyHavoc(fr, st, ms, fresh)
	for _, inv := range cut.invs {
		t, facts := e.evalInv(fr, li, st, inv, true)
		st.assume(t)
		st.facts = append(st.facts, facts...)
	}
	if ls := e.loopSpec(fr, li); ls != nil {
		for _, cl := range ls.Unfolds {
			env := e.loopEnv(fr, li, st)
			if app := env.eval(cl.Expr).V.(Scalar).T; app.Op == OApp {
				if def := e.recDefinition(app); def != nil {
					st.assume(def)
				}
			}
		}
	}
	cut.variant, cut.varText = e.loopVariant(fr, li, st)
	if st.calls == nil {
		st.calls = c.Const(64, 0)
	}
	// the number of earlier calls is unknown at an arbitrary iteration
	st.calls = c.FreshVar("calls", BV(64))
	cut.headCalls = st.calls
	cut.headHeap = st.heap
	fr.cuts[li.head] = cut
	st.path = append(st.path, fmt.Sprintf("loop%d", li.ordinal))
	e.runFrom(fr, li.head, len(phis), st, k)
}

// loopBackEdge: invariant preservation and variant decrease; the path ends here.
func (e *Engine) loopBackEdge(fr *frame, li *loopInfo, pred *ssa.BasicBlock, st *State) {
	if fr.dry != nil && fr.dry.li == li {
		return
	}
	c := e.C
	cut := fr.cuts[li.head]
	phis := headPhis(li.head)
	pi := edgeIndex(li.head, pred)
	frB := fr.clone()
	var vals []Value
	for _, ph := range phis {
		vals = append(vals, e.get(fr, ph.Edges[pi]))
	}
	for i, ph := range phis {
		frB.regs[ph] = vals[i]
	}
	for _, inv := range cut.invs {
		t, facts := e.evalInv(frB, li, st, inv, false)
		s2 := st
		if len(facts) > 0 {
			s2 = st.clone()
			s2.facts = append(s2.facts, facts...)
		}
		e.obligeNoAssume(s2, fr, "inv-step", fmt.Sprintf("loop%d:%s", li.ordinal, inv.name), t)
	}
	if ls := e.loopSpec(fr, li); ls != nil {
		for i, cl := range ls.Steps {
			env := e.loopEnvAll(fr, li, st)
			env.headCalls = cut.headCalls
			hh := cut.headHeap
			env.old = &hh // in a step clause old(e) is e at the head of the iteration
			goal, facts := e.clauseGoal(env, cl)
			s3 := st
			if len(facts) > 0 {
				s3 = st.clone()
				s3.facts = append(s3.facts, facts...)
			}
			e.obligeNoAssume(s3, fr, "step", fmt.Sprintf("loop%d:%s", li.ordinal, clauseName(cl, i)), goal)
		}
	}
	if li.isRange {
		return
	}
	if ls := e.loopSpec(fr, li); ls != nil && ls.AssumeTerm != "" {
		e.noteAbstract(fmt.Sprintf("termination of loop %d ASSUMED: %s", li.ordinal, ls.AssumeTerm))
		return
	}
	if cut.variant == nil {
		e.obligeNoAssume(st, fr, "dec", fmt.Sprintf("loop%d:no-variant", li.ordinal), c.False())
		return
	}
	nv, _ := e.loopVariant(frB, li, st)
	e.obligeNoAssume(st, fr, "dec", fmt.Sprintf("loop%d:%s", li.ordinal, cut.varText),
		c.And(c.Slt(nv, cut.variant), c.Sle(c.Const(64, 0), cut.variant)))
}

// ---------------------------------------------------------------------------------------------
// Invariants and variants

func (e *Engine) loopSpec(fr *frame, li *loopInfo) *LoopSpec {
	if fr.inl != "" || e.cur == nil || e.cur.spec == nil || fr.fn != e.cur.fn {
		return nil
	}
	return e.cur.spec.Loops[li.ordinal]
}

func (e *Engine) loopInvariants(fr *frame, li *loopInfo) []loopInv {
	var invs []loopInv
	if ls := e.loopSpec(fr, li); ls != nil {
		for i, cl := range ls.Invs {
			if cl.Thorough && e.Tier != "thorough" {
				continue
			}
			invs = append(invs, loopInv{name: clauseName(cl, i), cl: cl})
		}
	}
	c := e.C
	// type invariants of the parameters of the executing function
	for _, p := range fr.fn.Params {
		p := p
		for _, ti := range e.TypeInvs {
			if e.typeMatches(p.Type(), ti) {
				ti := ti
				invs = append(invs, loopInv{name: fmt.Sprintf("typeinv(%s)", p.Name()), gen: func(f *frame, st *State) *Term {
					env := &specEnv{e: e, heap: &st.heap, vars: map[string]SVal{ti.Var: {V: f.regs[p], T: p.Type()}}, bound: map[string]*Term{}, ext: st.ext}
					if pp, ok := e.P.All[ti.PkgPath]; ok {
						env.pkg = pp.Types
					}
					return env.boolTerm(env.eval(ti.Body.Expr))
				}})
			}
		}
	}
	// monotone counters: phi = [init, phi + k] with constant k > 0  ==>  init <= phi (signed)
	for _, ph := range headPhis(li.head) {
		ph := ph
		w, signed, ok := intInfo(ph.Type())
		if !ok || !signed || isFloat(ph.Type()) {
			continue
		}
		var initV ssa.Value
		step := int64(0)
		good := true
		for i, ed := range ph.Edges {
			if li.body[li.head.Preds[i]] {
				bo, ok := ed.(*ssa.BinOp)
				if !ok || bo.X != ph || (bo.Op != token.ADD && bo.Op != token.SUB) {
					good = false
					break
				}
				k, ok := bo.Y.(*ssa.Const)
				if !ok {
					good = false
					break
				}
				s := k.Int64()
				if bo.Op == token.SUB {
					s = -s
				}
				if step != 0 && (step > 0) != (s > 0) {
					good = false
				}
				step = s
			} else {
				if initV != nil && initV != ed {
					good = false
				}
				initV = ed
			}
		}
		if !good || initV == nil || step == 0 {
			continue
		}
		iv := initV
		up := step > 0
		// range-style guard in the header: (phi + step) < bound with a loop-invariant bound  ==>  phi < bound
		if up && len(li.head.Instrs) > 0 {
			if iff, ok := li.head.Instrs[len(li.head.Instrs)-1].(*ssa.If); ok && li.body[li.head.Succs[0]] {
				if bo, ok := iff.Cond.(*ssa.BinOp); ok && bo.Op == token.LSS {
					if nx, ok := bo.X.(*ssa.BinOp); ok && nx.X == ph && nx.Op == token.ADD && nx.Block() == li.head {
						bound := bo.Y
						outside := true
						if bi, isI := bound.(ssa.Instruction); isI && li.body[bi.Block()] {
							outside = false
						}
						if outside {
							invs = append(invs, loopInv{name: "below(" + ph.Comment + ")", gen: func(f *frame, st *State) *Term {
								x := f.regs[ph].(Scalar).T
								bv, ok := e.evalHead(f, li, bound, 0)
								if !ok {
									return c.True()
								}
								return c.Slt(x, bv.(Scalar).T)
							}})
						}
					}
				}
			}
		}
		invs = append(invs, loopInv{name: "counter(" + ph.Comment + ")", gen: func(f *frame, st *State) *Term {
			x := f.regs[ph].(Scalar).T
			i0 := e.get(f, iv).(Scalar).T
			_ = w
			if up {
				return c.Sle(i0, x)
			}
			return c.Sle(x, i0)
		}})
	}
	return invs
}

func (e *Engine) loopNames(fr *frame, li *loopInfo) map[string]SVal {
	names := map[string]SVal{}
	// parameters
	for _, p := range fr.fn.Params {
		if v, ok := fr.regs[p]; ok {
			names[p.Name()] = SVal{V: v, T: p.Type()}
		}
	}
	// source variables via DebugRefs in blocks dominating the head (last one wins), then header phis
	paramObj := map[types.Object]bool{}
	for _, p := range fr.fn.Params {
		if p.Object() != nil {
			paramObj[p.Object()] = true
		}
	}
	addrOf := map[string]types.Object{} // names bound to the address of an address-taken local
	for _, b := range fr.fn.Blocks {
		if !b.Dominates(li.head) || b == li.head {
			continue
		}
		for _, in := range b.Instrs {
			if d, ok := in.(*ssa.DebugRef); ok {
				// address-taken locals are exposed as pointers (p.f then reads the current memory);
				// a later by-value use of the same variable is a stale copy and must not replace the address
				if id, ok := d.Expr.(*ast.Ident); ok {
					if paramObj[d.Object()] {
						continue // a parameter name always denotes the entry value
					}
					if obj, bound := addrOf[id.Name]; bound && !d.IsAddr && obj == d.Object() {
						continue
					}
					if d.IsAddr {
						addrOf[id.Name] = d.Object()
					} else {
						delete(addrOf, id.Name)
					}
					if v, ok := fr.regs[d.X]; ok {
						names[id.Name] = SVal{V: v, T: d.X.Type(), Addr: d.IsAddr}
					} else if k, ok := d.X.(*ssa.Const); ok {
						names[id.Name] = SVal{V: e.constVal(k), T: d.X.Type()}
					}
				}
			}
		}
	}
	for _, ph := range headPhis(li.head) {
		if ph.Comment != "" {
			if v, ok := fr.regs[ph]; ok {
				names[ph.Comment] = SVal{V: v, T: ph.Type()}
			}
		}
	}
	return names
}

// loopEnvAll: like loopEnv, but every named SSA value currently bound in the frame is visible (phis of
// inner loops, locals of the body) — for `step` clauses evaluated at a back edge.
func (e *Engine) loopEnvAll(fr *frame, li *loopInfo, st *State) *specEnv {
	env := e.loopEnv(fr, li, st)
	for _, b := range fr.fn.Blocks {
		for _, in := range b.Instrs {
			if x, ok := in.(*ssa.Phi); ok && x.Comment != "" {
				if v, ok := fr.regs[x]; ok {
					if _, dup := env.vars[x.Comment]; !dup {
						env.vars[x.Comment] = SVal{V: v, T: x.Type()}
					}
				}
			}
		}
	}
	for _, b := range fr.fn.Blocks {
		for _, in := range b.Instrs {
			switch x := in.(type) {
			case *ssa.DebugRef:
				if id, ok := x.Expr.(*ast.Ident); ok {
					if v, ok := fr.regs[x.X]; ok {
						if _, dup := env.vars[id.Name]; !dup {
							env.vars[id.Name] = SVal{V: v, T: x.X.Type()}
						}
					}
				}
			}
		}
	}
	return env
}

func (e *Engine) loopEnv(fr *frame, li *loopInfo, st *State) *specEnv {
	env := &specEnv{e: e, heap: &st.heap, vars: e.loopNames(fr, li), bound: map[string]*Term{}, rc: e.cur, st: st, ext: st.ext}
	// a name bound to the address of an address-taken local of non-struct type denotes the variable's
	// current value (struct-typed ones stay pointers: selectors read the current memory through them)
	for name, sv := range env.vars {
		if !sv.Addr {
			continue
		}
		pt, ok := sv.T.Underlying().(*types.Pointer)
		if !ok {
			continue
		}
		if _, isStruct := pt.Elem().Underlying().(*types.Struct); isStruct {
			continue
		}
		env.vars[name] = SVal{V: e.C.Load(&st.heap, toPtr(sv.V), 0, pt.Elem()), T: pt.Elem()}
	}
	if e.cur != nil && e.cur.entry != nil {
		env.old = &e.cur.entry.heap
	}
	if fr.fn.Pkg != nil {
		env.pkg = fr.fn.Pkg.Pkg
	}
	return env
}

// evalInv evaluates a loop invariant in the given frame/state: as a goal (a universal quantifier is
// skolemised, quantified hypotheses become facts) or as an assumption (universals become facts).
func (e *Engine) evalInv(fr *frame, li *loopInfo, st *State, inv loopInv, assume bool) (*Term, []*QFact) {
	if inv.gen != nil {
		return inv.gen(fr, st), nil
	}
	env := e.loopEnv(fr, li, st)
	if assume {
		return e.clauseAssume(env, inv.cl)
	}
	return e.clauseGoal(env, inv.cl)
}

// loopVariant: user `decreases`, else inferred from the loop guard `a < b` / `a <= b` with b
// loop-invariant: variant b - a (as 64-bit signed).
func (e *Engine) loopVariant(fr *frame, li *loopInfo, st *State) (*Term, string) {
	c := e.C
	if ls := e.loopSpec(fr, li); ls != nil && ls.Decreases != nil {
		env := e.loopEnv(fr, li, st)
		return env.asInt64(env.toType(env.eval(ls.Decreases.Expr), types.Typ[types.Int])), ls.Decreases.Text
	}
	// find a conditional exit whose condition compares a loop-varying value with an invariant one
	var blocks []*ssa.BasicBlock
	for b := range li.body {
		blocks = append(blocks, b)
	}
	sort.Slice(blocks, func(i, j int) bool { return blocks[i].Index < blocks[j].Index })
	for _, b := range blocks {
		if len(b.Instrs) == 0 {
			continue
		}
		iff, ok := b.Instrs[len(b.Instrs)-1].(*ssa.If)
		if !ok {
			continue
		}
		// must be an exit test dominating all back edges: approximate by requiring it in the head
		if b != li.head {
			continue
		}
		bo, ok := iff.Cond.(*ssa.BinOp)
		if !ok {
			continue
		}
		stay := 0
		if !li.body[b.Succs[0]] {
			stay = 1
		}
		x, y := bo.X, bo.Y
		op := bo.Op
		if stay == 1 { // loop continues on false: negate
			switch op {
			case token.LSS:
				op = token.GEQ
			case token.LEQ:
				op = token.GTR
			case token.GTR:
				op = token.LEQ
			case token.GEQ:
				op = token.LSS
			default:
				continue
			}
		}
		// normalise to small < big
		var small, big ssa.Value
		switch op {
		case token.LSS, token.LEQ:
			small, big = x, y
		case token.GTR, token.GEQ:
			small, big = y, x
		default:
			continue
		}
		_, signed, ok := intInfo(small.Type())
		if !ok || isFloat(small.Type()) {
			continue
		}
		sv, ok1 := e.evalHead(fr, li, small, 0)
		bv, ok2 := e.evalHead(fr, li, big, 0)
		if !ok1 || !ok2 {
			continue
		}
		s64 := c.Resize(sv.(Scalar).T, 64, signed)
		b64 := c.Resize(bv.(Scalar).T, 64, signed)
		return c.Sub(b64, s64), fmt.Sprintf("guard(%s)", e.exprAt(bo.Pos()))
	}
	return nil, ""
}

// evalHead evaluates a value at the loop head from the current phi values: values defined in the
// header block by pure arithmetic on phis are recomputed (their registers are stale at a back edge).
func (e *Engine) evalHead(fr *frame, li *loopInfo, v ssa.Value, depth int) (Value, bool) {
	c := e.C
	if k, ok := v.(*ssa.Const); ok {
		return e.constVal(k), true
	}
	in, isInstr := v.(ssa.Instruction)
	if !isInstr || !li.body[in.Block()] {
		r, ok := fr.regs[v]
		return r, ok
	}
	if ph, ok := v.(*ssa.Phi); ok && ph.Block() == li.head {
		r, ok := fr.regs[v]
		return r, ok
	}
	if in.Block() != li.head || depth > 4 {
		return nil, false
	}
	switch x := v.(type) {
	case *ssa.BinOp:
		a, ok1 := e.evalHead(fr, li, x.X, depth+1)
		b, ok2 := e.evalHead(fr, li, x.Y, depth+1)
		if !ok1 || !ok2 {
			return nil, false
		}
		sa, isA := a.(Scalar)
		sb, isB := b.(Scalar)
		if !isA || !isB || sa.T.S.K != SBV || sa.T.S != sb.T.S {
			return nil, false
		}
		switch x.Op {
		case token.ADD:
			return Scalar{T: c.Add(sa.T, sb.T)}, true
		case token.SUB:
			return Scalar{T: c.Sub(sa.T, sb.T)}, true
		}
	case *ssa.Convert:
		a, ok := e.evalHead(fr, li, x.X, depth+1)
		if !ok {
			return nil, false
		}
		_, fs, fok := intInfo(x.X.Type())
		tw, _, tok := intInfo(x.Type())
		if sa, isS := a.(Scalar); isS && fok && tok && !isFloat(x.X.Type()) && !isFloat(x.Type()) {
			return Scalar{T: c.Resize(sa.T, tw, fs)}, true
		}
	}
	return nil, false
}

// mentionsNewVar: t contains a variable created after the term with the given ID.
func mentionsNewVar(t *Term, id int) bool {
	found := false
	Walk([]*Term{t}, func(x *Term) {
		if x.Op == OVar && x.ID > id {
			found = true
		}
	})
	return found
}

// localsAt: the source-level local variables visible at block b (DebugRefs in blocks that dominate b, and in b
// itself), as loop clauses see them: address-taken non-struct locals denote their current contents.
func (e *Engine) localsAt(fr *frame, b *ssa.BasicBlock, st *State) map[string]SVal {
	names := map[string]SVal{}
	addrOf := map[string]types.Object{}
	for _, blk := range fr.fn.Blocks {
		if blk != b && !blk.Dominates(b) {
			continue
		}
		for _, in := range blk.Instrs {
			if ph, isPhi := in.(*ssa.Phi); isPhi {
				// a loop-carried variable: the phi is its current value from here on
				if ph.Comment != "" {
					if v, ok := fr.regs[ph]; ok {
						names[ph.Comment] = SVal{V: v, T: ph.Type()}
						delete(addrOf, ph.Comment)
					}
				}
				continue
			}
			d, ok := in.(*ssa.DebugRef)
			if !ok {
				continue
			}
			id, ok := d.Expr.(*ast.Ident)
			if !ok {
				continue
			}
			if obj, bound := addrOf[id.Name]; bound && !d.IsAddr && obj == d.Object() {
				continue
			}
			if d.IsAddr {
				addrOf[id.Name] = d.Object()
			} else {
				delete(addrOf, id.Name)
			}
			if v, ok := fr.regs[d.X]; ok {
				names[id.Name] = SVal{V: v, T: d.X.Type(), Addr: d.IsAddr}
			}
		}
	}
	for name, sv := range names {
		if !sv.Addr {
			continue
		}
		pt, ok := sv.T.Underlying().(*types.Pointer)
		if !ok {
			continue
		}
		if _, isStruct := pt.Elem().Underlying().(*types.Struct); isStruct {
			continue
		}
		names[name] = SVal{V: e.C.Load(&st.heap, toPtr(sv.V), 0, pt.Elem()), T: pt.Elem()}
	}
	return names
}
