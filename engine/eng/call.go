package eng

import (
	"fmt"
	"go/ast"
	"go/parser"
	"go/token"
	"go/types"
	"math"
	"strings"

	"golang.org/x/tools/go/ssa"
)

func f32bits(f float32) uint32 { return math.Float32bits(f) }
func f64bits(f float64) uint64 { return math.Float64bits(f) }

var exprCache = map[string]ast.Expr{}

func parseExprCached(s string) (ast.Expr, error) {
	if e, ok := exprCache[s]; ok {
		return e, nil
	}
	e, err := parser.ParseExpr(s)
	if err == nil {
		exprCache[s] = e
	}
	return e, err
}

// ---------------------------------------------------------------------------------------------
// Calls

func (e *Engine) doCall(fr *frame, x *ssa.Call, st *State, k func(st *State, res Value)) {
	cm := x.Common()
	if cm.IsInvoke() {
		recv := e.get(fr, cm.Value).(Iface)
		e.oblige(st, fr, "nil", "invoke:"+e.callText(x), e.C.Ne(recv.Typ, e.C.Const(TypW, 0)), x.Pos())
		// statically known dynamic type: dispatch
		if recv.Typ.IsConst() && recv.Typ.Val != 0 {
			dt := e.typeByID[uint32(recv.Typ.Val)]
			if fn := e.P.SSA.LookupMethod(dt, cm.Method.Pkg(), cm.Method.Name()); fn != nil {
				var rv Value
				if isPointerShaped(dt) {
					rv = recv.P
				} else if sizeof(dt) == 0 {
					rv = e.C.Zero(dt)
				} else {
					rv = e.C.Load(&st.heap, recv.P, 0, dt)
				}
				args := []Value{rv}
				for _, a := range cm.Args {
					args = append(args, e.get(fr, a))
				}
				e.staticCall(fr, x, fn, args, st, k)
				return
			}
		}
		e.abstractCall(fr, x, "invoke "+cm.Method.Name(), st, k)
		return
	}
	var args []Value
	for _, a := range cm.Args {
		args = append(args, e.get(fr, a))
	}
	switch callee := cm.Value.(type) {
	case *ssa.Builtin:
		e.builtin(fr, x, callee, args, st, k)
		return
	case *ssa.Function:
		e.staticCall(fr, x, callee, args, st, k)
		return
	}
	fv, ok := e.get(fr, cm.Value).(FuncV)
	if ok && fv.Fn != nil {
		e.staticCall(fr, x, fv.Fn, append(args, fv.Bind...), st, k)
		return
	}
	if ok {
		e.oblige(st, fr, "nil", "call:"+e.callText(x), e.C.Not(e.C.IsNil(fv.P)), x.Pos())
	}
	// calls through a function-typed parameter of the root function: assumed frame (callee … preserves)
	if par, isPar := cm.Value.(*ssa.Parameter); isPar && fr.inl == "" && e.cur != nil && e.cur.spec != nil {
		// callee <param> requires …: proved at the call site over the actual arguments a0, a1, …
		for i, rq := range e.cur.spec.CalleeReq[par.Name()] {
			env := &specEnv{e: e, heap: &st.heap, old: &e.cur.entry.heap, vars: map[string]SVal{}, bound: map[string]*Term{}, rc: e.cur, ext: st.ext}
			if e.cur.fn.Pkg != nil {
				env.pkg = e.cur.fn.Pkg.Pkg
			}
			for k, v := range e.cur.params {
				env.vars[k] = v
			}
			for j, a := range cm.Args {
				env.vars[fmt.Sprintf("a%d", j)] = SVal{V: args[j], T: a.Type()}
			}
			goal, facts := e.clauseGoal(env, rq)
			st.facts = append(st.facts, facts...)
			e.oblige(st, fr, "callpre", par.Name()+":"+clauseName(rq, i), goal, x.Pos())
		}
		if st.calls == nil {
			st.calls = e.C.Const(64, 0)
		}
		st.calls = e.C.Add(st.calls, e.C.Const(64, 1))
		if items := e.cur.spec.Preserves[par.Name()]; len(items) > 0 {
			old := st.heap
			e.noteAbstract("assumed frame of calls through parameter " + par.Name())
			e.keepingCall = true
			e.abstractCall(fr, x, "dynamic call", st, func(st2 *State, res Value) {
				e.restoreKept(st2, old)
				k(st2, res)
			})
			return
		}
	}
	e.abstractCall(fr, x, "dynamic call", st, k)
}

func (e *Engine) callText(x *ssa.Call) string {
	t := e.P.ExprText(x.Pos(), func(n ast.Node) bool { _, ok := n.(*ast.CallExpr); return ok })
	if t == "" {
		t = x.Common().Value.Name()
	}
	return t
}

func resultValue(rets []Value) Value {
	switch len(rets) {
	case 0:
		return nil
	case 1:
		return rets[0]
	}
	return Tuple{rets}
}

func (e *Engine) inlineStackHas(fr *frame, fn *ssa.Function) bool {
	return strings.Contains(fr.inl, "("+ShortKey(FuncKey(fn))+")")
}

func (e *Engine) staticCall(fr *frame, x *ssa.Call, fn *ssa.Function, args []Value, st *State, k func(st *State, res Value)) {
	key := FuncKey(fn)
	if fr.inl == "" && e.cur != nil && e.cur.spec != nil && len(e.cur.spec.CallAssumes) > 0 {
		// callsite … assumes …: stated assumptions about direct calls of the function under contract
		mkEnv := func(s *State, res Value) *specEnv {
			env := &specEnv{e: e, heap: &s.heap, old: &e.cur.entry.heap, vars: map[string]SVal{}, bound: map[string]*Term{}, rc: e.cur, ext: s.ext}
			if e.cur.fn.Pkg != nil {
				env.pkg = e.cur.fn.Pkg.Pkg
			}
			for kk, v := range e.cur.params {
				env.vars[kk] = v
			}
			for j, a := range args {
				if j < len(fn.Params) {
					env.vars[fmt.Sprintf("a%d", j)] = SVal{V: a, T: fn.Params[j].Type()}
				}
			}
			if res != nil {
				rs := fn.Signature.Results()
				if rs.Len() == 1 {
					env.vars["r0"] = SVal{V: res, T: rs.At(0).Type()}
				} else if tu, ok := res.(Tuple); ok {
					for j := 0; j < rs.Len(); j++ {
						env.vars[fmt.Sprintf("r%d", j)] = SVal{V: tu.E[j], T: rs.At(j).Type()}
					}
				}
			}
			return env
		}
		var posts []*CallAssume
		for _, ca := range e.cur.spec.CallAssumes {
			if !strings.HasSuffix(key, ca.Callee) {
				continue
			}
			if ca.Check {
				// an obligation about this call, stated by the caller's contract (the caller's named locals are visible)
				env := mkEnv(st, nil)
				if b := x.Block(); b != nil {
					for name, sv := range e.localsAt(fr, b, st) {
						if _, taken := env.vars[name]; !taken {
							env.vars[name] = sv
						}
					}
				}
				goal, facts := e.clauseGoal(env, ca.Cl)
				s3 := st
				if len(facts) > 0 {
					s3 = st.clone()
					s3.facts = append(s3.facts, facts...)
				}
				e.obligeNoAssume(s3, fr, "callreq", ShortKey(key)+":"+clauseName(ca.Cl, 0), goal)
				continue
			}
			e.noteAbstract("assumed at calls of " + ca.Callee + ": " + ca.Cl.Text)
			if ca.Post {
				posts = append(posts, ca)
				continue
			}
			t, facts := e.clauseAssume(mkEnv(st, nil), ca.Cl)
			e.flushWF(st)
			st.assume(t)
			st.facts = append(st.facts, facts...)
		}
		if len(posts) > 0 {
			k0 := k
			k = func(s2 *State, res Value) {
				for _, ca := range posts {
					t, facts := e.clauseAssume(mkEnv(s2, res), ca.Cl)
					e.flushWF(s2)
					s2.assume(t)
					s2.facts = append(s2.facts, facts...)
				}
				k0(s2, res)
			}
		}
	}
	if e.intrinsic(fr, x, key, fn, args, st, k) {
		return
	}
	if spec := e.Specs[key]; spec != nil {
		e.contractCall(fr, x, fn, spec, args, st, k)
		return
	}
	if e.externCall(fr, x, key, fn, args, st, k) {
		return
	}
	if len(fn.Blocks) > 0 && fr.depth < e.InlineMax && !e.inlineStackHas(fr, fn) && fn != e.cur.fn {
		inl := fr.inl
		if inl != "" {
			inl += ">"
		}
		inl += "inl(" + ShortKey(key) + ")"
		// Leaf helpers that do not write memory are merged back into one path: the callee is run on a
		// snapshot, and if every return leaves the heap untouched the results are joined by ite over the
		// path conditions (obligations inside the callee were emitted per path as usual).
		type retRec struct {
			conds []*Term
			rets  []Value
			path  []string
		}
		if !e.isPureLeaf(fn, 0) {
			e.runFunc(fn, args, st, fr, inl, func(st2 *State, rets []Value) {
				k(st2, resultValue(rets))
			})
			return
		}
		var recs []retRec
		pure := true
		base := st.clone()
		nOb, nTriv := len(e.cur.obligs), e.cur.trivial
		npc, nfacts := len(st.pc), len(st.facts)
		pathsBefore := e.cur.paths
		e.runFunc(fn, args, st.clone(), fr, inl, func(st2 *State, rets []Value) {
			if st2.heap != base.heap || len(st2.facts) != nfacts {
				pure = false
			}
			recs = append(recs, retRec{append([]*Term(nil), st2.pc[npc:]...), rets, st2.path})
		})
		if pure && len(recs) > 1 && len(recs) <= 64 {
			c := e.C
			e.cur.paths = pathsBefore
			var any []*Term
			var res Value
			for i := len(recs) - 1; i >= 0; i-- {
				cond := c.And(recs[i].conds...)
				any = append(any, cond)
				rv := resultValue(recs[i].rets)
				if res == nil || rv == nil {
					res = rv
				} else {
					res = c.IteVal(cond, rv, res)
				}
			}
			st.assume(c.Or(any...))
			k(st, res)
			return
		}
		if len(recs) <= 1 && pure {
			for _, r := range recs {
				for _, t := range r.conds {
					st.assume(t)
				}
				k(st, resultValue(r.rets))
			}
			return
		}
		// effectful callee: re-run with the real continuation
		e.cur.paths = pathsBefore
		e.cur.obligs, e.cur.trivial = e.cur.obligs[:nOb], nTriv
		e.runFunc(fn, args, st, fr, inl, func(st2 *State, rets []Value) {
			k(st2, resultValue(rets))
		})
		return
	}
	e.abstractCall(fr, x, "call "+ShortKey(key), st, k)
}

// abstractCall: unknown effect and result (sound over-approximation; flagged in evidence).
func (e *Engine) abstractCall(fr *frame, x *ssa.Call, what string, st *State, k func(st *State, res Value)) {
	c := e.C
	e.noteAbstract(what)
	hasPtr := false
	for _, a := range x.Common().Args {
		if mayPoint(a.Type()) {
			hasPtr = true
		}
	}
	keeping := e.keepingCall
	e.keepingCall = false
	if x.Common().IsInvoke() || hasPtr {
		c.havocAll(&st.heap)
		if fr.dry != nil {
			if keeping {
				fr.dry.noteAllKeeping()
			} else {
				fr.dry.noteAll()
			}
		}
	}
	var res Value
	if rt := x.Type(); rt != nil {
		if tp, ok := rt.(*types.Tuple); !ok || tp.Len() > 0 {
			var as []*Term
			res = c.Fresh(rt, "abs", false, &as)
			for _, a := range as {
				st.assume(a)
			}
		}
	}
	k(st, res)
}

func mayPoint(t types.Type) bool {
	switch u := t.Underlying().(type) {
	case *types.Basic:
		return u.Kind() == types.UnsafePointer || u.Kind() == types.String && false
	case *types.Pointer, *types.Map, *types.Chan, *types.Signature, *types.Interface, *types.Slice:
		return true
	case *types.Struct:
		for i := 0; i < u.NumFields(); i++ {
			if mayPoint(u.Field(i).Type()) {
				return true
			}
		}
	case *types.Array:
		return mayPoint(u.Elem())
	}
	return false
}

// ---------------------------------------------------------------------------------------------
// Intrinsics: stdlib functions given an exact SMT meaning instead of being inlined.

func (e *Engine) intrinsic(fr *frame, x *ssa.Call, key string, fn *ssa.Function, args []Value, st *State, k func(st *State, res Value)) bool {
	c := e.C
	switch key {
	case "math/bits.Len64", "math/bits.Len32", "math/bits.Len8", "math/bits.Len16", "math/bits.Len":
		v := args[0].(Scalar).T
		w := v.S.W
		r := c.Const(64, 0)
		for i := 0; i < w; i++ {
			bit := c.Ne(c.BAnd(v, c.Const(w, 1<<uint(i))), c.Const(w, 0))
			r = c.Ite(bit, c.Const(64, uint64(i+1)), r)
		}
		k(st, Scalar{T: r})
		return true
	case "math.Float64bits", "math.Float64frombits", "math.Float32bits", "math.Float32frombits":
		k(st, Scalar{T: args[0].(Scalar).T})
		return true
	case "runtime.KeepAlive":
		k(st, nil)
		return true
	}
	return false
}

// ---------------------------------------------------------------------------------------------
// Builtins

func (e *Engine) builtin(fr *frame, x *ssa.Call, b *ssa.Builtin, args []Value, st *State, k func(st *State, res Value)) {
	c := e.C
	cm := x.Common()
	switch b.Name() {
	case "len":
		switch v := args[0].(type) {
		case Slice:
			k(st, Scalar{T: v.Len})
		case Str:
			k(st, Scalar{T: v.Len})
		case Ptr: // map / chan
			e.noteAbstract("map")
			n := c.FreshVar("maplen", BV(64))
			st.assume(c.Sle(c.Const(64, 0), n))
			st.assume(c.Implies(c.IsNil(v), c.Eq(n, c.Const(64, 0))))
			k(st, Scalar{T: n})
		case Arr:
			k(st, Scalar{T: c.Const(64, uint64(len(v.E)))})
		default:
			unsupported("len of %T", v)
		}
	case "cap":
		switch v := args[0].(type) {
		case Slice:
			k(st, Scalar{T: v.Cap})
		default:
			unsupported("cap of %T", v)
		}
	case "append":
		e.doAppend(fr, x, args, st, k)
	case "copy":
		dst := args[0].(Slice)
		var srcP Ptr
		var srcLen *Term
		switch s := args[1].(type) {
		case Slice:
			srcP, srcLen = s.P, s.Len
		case Str:
			srcP, srcLen = s.P, s.Len
		}
		et := cm.Args[0].Type().Underlying().(*types.Slice).Elem()
		n := c.Ite(c.Slt(dst.Len, srcLen), dst.Len, srcLen)
		nb := c.Mul(n, c.Const(64, uint64(sizeof(et))))
		e.frameOblig(fr, st, dst.P, nb, "copy:"+e.callText(x), x.Pos())
		if fr.dry != nil {
			fr.dry.noteRegion(dst.P.R, et)
		}
		src := e.withStrLit(st.heap, srcP)
		st.facts = append(st.facts, c.copyRange(&st.heap, dst.P, srcP, nb, et, &src)...)
		k(st, Scalar{T: n})
	case "min", "max":
		t := cm.Args[0].Type()
		_, signed, ok := intInfo(t)
		if !ok || isFloat(t) {
			unsupported("min/max on %s", t)
		}
		r := args[0].(Scalar).T
		for _, a := range args[1:] {
			y := a.(Scalar).T
			var pick *Term
			switch {
			case b.Name() == "min" && signed:
				pick = c.Slt(y, r)
			case b.Name() == "min":
				pick = c.Ult(y, r)
			case signed:
				pick = c.Slt(r, y)
			default:
				pick = c.Ult(r, y)
			}
			r = c.Ite(pick, y, r)
		}
		k(st, Scalar{T: r})
	case "print", "println":
		k(st, nil)
	case "delete":
		e.noteAbstract("map")
		k(st, nil)
	case "ssa:wrapnilchk":
		p := toPtr(args[0])
		e.oblige(st, fr, "nil", "wrapnilchk", c.Not(c.IsNil(p)), x.Pos())
		k(st, args[0])
	case "Add": // unsafe.Add
		p := toPtr(args[0])
		n := e.toBV64(args[1], cm.Args[1].Type())
		k(st, Ptr{p.R, c.Add(p.O, n)})
	case "String": // unsafe.String(ptr, len)
		p := toPtr(args[0])
		k(st, Str{p, e.toBV64(args[1], cm.Args[1].Type())})
	case "Slice": // unsafe.Slice(ptr, len)
		p := toPtr(args[0])
		n := e.toBV64(args[1], cm.Args[1].Type())
		k(st, Slice{p, n, n})
	case "StringData":
		k(st, args[0].(Str).P)
	case "SliceData":
		k(st, args[0].(Slice).P)
	default:
		unsupported("builtin %s", b.Name())
	}
}

// doAppend models append(s, t...): forks into the in-place and the reallocating outcome.
func (e *Engine) doAppend(fr *frame, x *ssa.Call, args []Value, st *State, k func(st *State, res Value)) {
	c := e.C
	cm := x.Common()
	s := args[0].(Slice)
	et := cm.Args[0].Type().Underlying().(*types.Slice).Elem()
	es := c.Const(64, uint64(sizeof(et)))
	var tp Ptr
	var tl *Term
	switch t := args[1].(type) {
	case Slice:
		tp, tl = t.P, t.Len
	case Str:
		tp, tl = t.P, t.Len
	default:
		unsupported("append second arg %T", t)
	}
	if tl.IsConst() && tl.Val == 0 {
		k(st, s)
		return
	}
	newLen := c.Add(s.Len, tl)
	fits := c.Sle(newLen, s.Cap)
	txt := e.callText(x)
	// in place
	if !fits.IsFalse() {
		st1 := st
		var fr1 *frame = fr
		if !fits.IsTrue() {
			st1 = st.clone()
			e.countPath()
		}
		st1.assume(fits)
		st1.path = append(st1.path, "append-fits")
		dst := Ptr{s.P.R, c.Add(s.P.O, c.Mul(s.Len, es))}
		nb := c.Mul(tl, es)
		e.frameOblig(fr1, st1, dst, nb, "append:"+txt, x.Pos())
		if fr.dry != nil {
			fr.dry.noteRegion(s.P.R, et)
		}
		src := e.withStrLit(st1.heap, tp)
		st1.facts = append(st1.facts, c.copyRange(&st1.heap, dst, tp, nb, et, &src)...)
		if fits.IsTrue() {
			k(st1, Slice{s.P, newLen, s.Cap})
			return
		}
		// run the in-place continuation on a frame snapshot so that the grow path sees original regs
		e.appendCont(fr, st1, Slice{s.P, newLen, s.Cap}, k, true)
	}
	// grow
	st2 := st
	st2.assume(c.Not(fits))
	st2.path = append(st2.path, "append-grows")
	r := e.newRegion()
	dst := Ptr{r, c.Const(64, 0)}
	c.zeroRegion(&st2.heap, r, et)
	newCap := c.FreshVar("appcap", BV(64))
	st2.ext = append(st2.ext, extent{R: r, Lo: c.Const(64, 0), Hi: c.Mul(newCap, es)})
	st2.assume(c.Sle(newLen, newCap))
	st2.assume(c.Slt(newCap, c.Const(64, 1<<40)))
	e.allocOblig(fr, st2, txt, c.Mul(newLen, es), x.Pos())
	src := st2.heap
	st2.facts = append(st2.facts, c.copyRange(&st2.heap, dst, s.P, c.Mul(s.Len, es), et, &src)...)
	src2 := e.withStrLit(st2.heap, tp)
	st2.facts = append(st2.facts, c.copyRange(&st2.heap, Ptr{r, c.Mul(s.Len, es)}, tp, c.Mul(tl, es), et, &src2)...)
	k(st2, Slice{dst, newLen, newCap})
}

// appendCont invokes k on a cloned frame (the caller's continuation clones on re-entry).
func (e *Engine) appendCont(fr *frame, st *State, v Value, k func(st *State, res Value), _ bool) {
	k(st, v)
}

// ---------------------------------------------------------------------------------------------
// Frame obligations

// frameOblig: a write of nbytes at p must hit a region allocated during this call or lie inside
// the root contract's modifies set.
func (e *Engine) frameOblig(fr *frame, st *State, p Ptr, nbytes *Term, detail string, pos token.Pos) {
	rc := e.cur
	if rc == nil || rc.spec == nil || fr.dry != nil {
		return
	}
	c := e.C
	if isFreshRegion(p.R) {
		return
	}
	alts := []*Term{c.Uge(p.R, c.Const(RgnW, FreshBase))}
	for _, m := range rc.modRanges {
		if m.R == nil {
			return
		}
		// wrap-safe containment: (p.O - Lo) <= (Hi - Lo) and nbytes <= (Hi - Lo) - (p.O - Lo)
		off, size := c.Sub(p.O, m.Lo), c.Sub(m.Hi, m.Lo)
		in := c.And(c.Eq(p.R, m.R), c.Ule(off, size), c.Ule(nbytes, c.Sub(size, off)))
		if m.Cond != nil {
			in = c.And(m.Cond, in)
		}
		alts = append(alts, in)
	}
	// zero-length writes are fine
	alts = append(alts, c.Eq(nbytes, c.Const(64, 0)))
	e.oblige(st, fr, "frame", detail, c.Or(alts...), pos)
}

type modRange struct {
	R      *Term
	Lo, Hi *Term
	Text   string
	Cond   *Term
}

// ---------------------------------------------------------------------------------------------
// Contract calls

func (e *Engine) specEnvFor(fn *ssa.Function, spec *FuncSpec, args []Value, results []Value, heap, old *Heap, assume bool) *specEnv {
	env := &specEnv{e: e, heap: heap, old: old, assume: assume, vars: map[string]SVal{}, bound: map[string]*Term{}, rc: e.cur, ext: e.curExt}
	if fn.Pkg != nil {
		env.pkg = fn.Pkg.Pkg
	} else if p, ok := e.P.All[spec.PkgPath]; ok {
		env.pkg = p.Types
	}
	for i, p := range fn.Params {
		if i < len(args) {
			env.vars[p.Name()] = SVal{V: args[i], T: p.Type()}
		}
	}
	if results != nil {
		rs := fn.Signature.Results()
		for i := 0; i < rs.Len(); i++ {
			sv := SVal{V: results[i], T: rs.At(i).Type()}
			if n := rs.At(i).Name(); n != "" && n != "_" {
				env.vars[n] = sv
			}
			env.vars[fmt.Sprintf("r%d", i)] = sv
			if rs.Len() == 1 {
				env.vars["result"] = sv
			}
		}
	}
	return env
}

// typeInvTerms returns the instantiated type invariants for the parameters (and optionally results).
func (e *Engine) typeInvTerms(fn *ssa.Function, vals []Value, tys []types.Type, names []string, heap *Heap) []namedTerm {
	var out []namedTerm
	for i, v := range vals {
		for _, ti := range e.TypeInvs {
			if e.typeMatches(tys[i], ti) {
				env := &specEnv{e: e, heap: heap, vars: map[string]SVal{ti.Var: {V: v, T: tys[i]}}, bound: map[string]*Term{}, assume: e.tiAssume, ext: e.curExt}
				if p, ok := e.P.All[ti.PkgPath]; ok {
					env.pkg = p.Types
				}
				t := env.boolTerm(env.eval(ti.Body.Expr))
				out = append(out, namedTerm{fmt.Sprintf("typeinv(%s %s)", names[i], ti.Type), t})
			}
		}
	}
	return out
}

type namedTerm struct {
	name string
	t    *Term
}

func (e *Engine) typeMatches(t types.Type, ti *TypeInv) bool {
	s := ti.Type
	ptr := strings.HasPrefix(s, "*")
	s = strings.TrimPrefix(s, "*")
	if ptr {
		pt, ok := t.(*types.Pointer)
		if !ok {
			return false
		}
		t = pt.Elem()
	}
	nt, ok := t.(*types.Named)
	if !ok {
		return false
	}
	return nt.Obj().Name() == s && nt.Obj().Pkg() != nil && nt.Obj().Pkg().Path() == ti.PkgPath
}

func paramInfo(fn *ssa.Function, args []Value) ([]Value, []types.Type, []string) {
	var tys []types.Type
	var names []string
	for _, p := range fn.Params {
		tys = append(tys, p.Type())
		names = append(names, p.Name())
	}
	return args, tys, names
}

func (e *Engine) contractCall(fr *frame, x *ssa.Call, fn *ssa.Function, spec *FuncSpec, args []Value, st *State, k func(st *State, res Value)) {
	// caller-side case splits requested by the contract
	if len(spec.Splits) > 0 {
		pre := st.heap
		env := e.specEnvFor(fn, spec, args, nil, &pre, nil, false)
		states := []*State{st}
		for _, sp := range spec.Splits {
			cond := env.boolTerm(env.eval(sp.Expr))
			if cond.IsTrue() || cond.IsFalse() {
				continue
			}
			var next []*State
			for _, s := range states {
				s2 := s.clone()
				s.assume(cond)
				s.path = append(s.path, "split("+sp.Text+")=T")
				s2.assume(e.C.Not(cond))
				s2.path = append(s2.path, "split("+sp.Text+")=F")
				next = append(next, s, s2)
				e.countPath()
			}
			states = next
		}
		for _, s := range states {
			e.contractCall1(fr, x, fn, spec, args, s, k)
		}
		return
	}
	e.contractCall1(fr, x, fn, spec, args, st, k)
}

func (e *Engine) contractCall1(fr *frame, x *ssa.Call, fn *ssa.Function, spec *FuncSpec, args []Value, st *State, k func(st *State, res Value)) {
	c := e.C
	short := ShortKey(spec.Key)
	pre := st.heap
	e.curExt = st.ext
	if e.cur != nil && e.cur.used != nil {
		e.cur.used[spec.Key] = true
	}
	// preconditions
	env := e.specEnvFor(fn, spec, args, nil, &pre, nil, false)
	if !spec.NoTypeInv {
		vs, tys, names := paramInfo(fn, args)
		for _, nt := range e.typeInvTerms(fn, vs, tys, names, &pre) {
			e.oblige(st, fr, "pre", short+":"+nt.name, nt.t, x.Pos())
		}
	}
	for i, rq := range spec.Requires {
		goal, facts := e.clauseGoal(env, rq)
		st.facts = append(st.facts, facts...)
		e.oblige(st, fr, "pre", short+":"+clauseName(rq, i), goal, x.Pos())
	}
	// recursion: variant must decrease
	if e.cur != nil && fn == e.cur.fn && spec.Decreases != nil && fr.dry == nil {
		newV := env.asInt64(env.toType(env.eval(spec.Decreases.Expr), types.Typ[types.Int]))
		oldV := e.cur.variant
		if oldV != nil {
			e.oblige(st, fr, "dec", "rec:"+short, c.And(c.Slt(newV, oldV), c.Sle(c.Const(64, 0), oldV)), x.Pos())
		}
	}
	// regions the callee may have allocated: reserved before any post-state value is created, so that
	// post-state values may refer to them (allocation epochs, see term.go)
	poolBase := e.nextRgn
	e.setRgn(poolBase + 8)
	poolNext := poolBase
	// the callee's frame must lie inside the caller's (root) frame: what the callee may write, the root may write
	for _, m := range spec.Modifies {
		e.calleeFrameOblig(fr, st, env, m, short, x.Pos())
	}
	// havoc the modifies set
	for _, m := range spec.Modifies {
		e.havocItem(fr, st, env, m)
	}
	// results
	var results []Value
	rs := fn.Signature.Results()
	for i := 0; i < rs.Len(); i++ {
		var as []*Term
		v := c.Fresh(rs.At(i).Type(), "ret."+fn.Name(), false, &as)
		for _, a := range as {
			st.assume(a)
		}
		results = append(results, v)
		e.addExtents(st, v, rs.At(i).Type())
	}
	post := e.specEnvFor(fn, spec, args, results, &st.heap, &pre, true)
	post.freshAlloc = func() *Term {
		poolNext++
		if poolNext > poolBase+8 {
			specErr("more than 8 fresh() clauses in one contract")
		}
		return c.Const(RgnW, uint64(FreshBase+poolNext))
	}
	for _, en := range spec.Ensures {
		if en.Local {
			continue
		}
		t, facts := e.clauseAssume(post, en)
		st.assume(t)
		st.facts = append(st.facts, facts...)
	}
	e.flushWF(st)
	if !spec.NoTypeInv {
		vs, tys, names := paramInfo(fn, args)
		e.tiAssume = true
		for _, nt := range e.typeInvTerms(fn, vs, tys, names, &st.heap) {
			st.assume(nt.t)
		}
		e.tiAssume = false
		e.flushWF(st)
	}
	k(st, resultValue(results))
}

func clauseName(cl *Clause, i int) string {
	if cl.Label != "" {
		return cl.Label
	}
	return fmt.Sprintf("#%d", i+1)
}

// calleeFrameOblig: one modifies item of a called contract (evaluated in the pre-state of the call) must be
// covered by the root contract's modifies set, or lie in memory allocated during this call.
func (e *Engine) calleeFrameOblig(fr *frame, st *State, env *specEnv, m *Clause, callee string, pos token.Pos) {
	rc := e.cur
	if rc == nil || rc.spec == nil || fr.dry != nil {
		return
	}
	c := e.C
	var cond *Term
	if m.Cond != nil {
		cond = env.boolTerm(env.eval(m.Cond))
		if cond.IsFalse() {
			return
		}
	}
	detail := "call:" + callee + ":" + m.Text
	rootHeap := false
	for _, rm := range rc.modRanges {
		if rm.R == nil {
			rootHeap = true
		}
	}
	if rootHeap {
		return
	}
	var p Ptr
	var n *Term
	switch {
	case isIdentNamed(m.Expr, "heap"):
		e.oblige(st, fr, "frame", detail, c.False(), pos)
		return
	default:
		if call, ok := m.Expr.(*ast.CallExpr); ok {
			if id, ok := call.Fun.(*ast.Ident); ok && (id.Name == "bytes" || id.Name == "elems") && len(call.Args) == 1 {
				v := env.eval(call.Args[0])
				sl, ok := v.V.(Slice)
				if !ok {
					return
				}
				et := v.T.Underlying().(*types.Slice).Elem()
				p, n = sl.P, c.Mul(sl.Cap, c.Const(64, uint64(sizeof(et))))
				break
			}
			if id, ok := call.Fun.(*ast.Ident); ok && id.Name == "region" {
				v := env.eval(call.Args[0])
				p, n = Ptr{regionOf(v.V), c.Const(64, 0)}, c.Const(64, 1<<62)
				break
			}
		}
		if sl, ok := m.Expr.(*ast.SliceExpr); ok {
			v := env.eval(sl)
			s := v.V.(Slice)
			et := v.T.Underlying().(*types.Slice).Elem()
			p, n = s.P, c.Mul(s.Len, c.Const(64, uint64(sizeof(et))))
			break
		}
		lp, t := env.lvalue(m.Expr)
		p, n = lp, c.Const(64, uint64(sizeof(t)))
	}
	if isFreshRegion(p.R) {
		return
	}
	alts := []*Term{c.Uge(p.R, c.Const(RgnW, FreshBase)), c.Eq(n, c.Const(64, 0))}
	if cond != nil {
		alts = append(alts, c.Not(cond))
	}
	for _, rm := range rc.modRanges {
		off, size := c.Sub(p.O, rm.Lo), c.Sub(rm.Hi, rm.Lo)
		in := c.And(c.Eq(p.R, rm.R), c.Ule(off, size), c.Ule(n, c.Sub(size, off)))
		if rm.Cond != nil {
			in = c.And(rm.Cond, in)
		}
		alts = append(alts, in)
	}
	e.oblige(st, fr, "frame", detail, c.Or(alts...), pos)
}

func isIdentNamed(x ast.Expr, name string) bool {
	id, ok := x.(*ast.Ident)
	return ok && id.Name == name
}

// havocItem forgets the contents of one modifies item (evaluated in the pre-state).
func (e *Engine) havocItem(fr *frame, st *State, env *specEnv, m *Clause) {
	c := e.C
	var cond *Term
	if m.Cond != nil {
		cond = env.boolTerm(env.eval(m.Cond))
		if cond.IsFalse() {
			return
		}
		if cond.IsTrue() {
			cond = nil
		}
	}
	// whole-slice contents: bytes(b)  |  range: b[lo:hi]  |  cell: p.f, *p  |  "heap" (everything)
	if id, ok := m.Expr.(*ast.Ident); ok && id.Name == "heap" {
		c.havocAll(&st.heap)
		if fr.dry != nil {
			fr.dry.noteAll()
		}
		return
	}
	if call, ok := m.Expr.(*ast.CallExpr); ok {
		if id, ok := call.Fun.(*ast.Ident); ok && (id.Name == "bytes" || id.Name == "elems") {
			v := env.eval(call.Args[0])
			s, ok := v.V.(Slice)
			if !ok {
				specErr("modifies bytes() of non-slice")
			}
			et := v.T.Underlying().(*types.Slice).Elem()
			hi := c.Add(s.P.O, c.Mul(s.Cap, c.Const(64, uint64(sizeof(et)))))
			st.facts = append(st.facts, c.havocRange(&st.heap, s.P.R, s.P.O, hi, et, cond)...)
			if fr.dry != nil {
				fr.dry.noteRegion(s.P.R, et)
			}
			return
		}
		if id, ok := call.Fun.(*ast.Ident); ok && id.Name == "region" {
			v := env.eval(call.Args[0])
			r := regionOf(v.V)
			c.havocRegion(&st.heap, r)
			if fr.dry != nil {
				fr.dry.noteRegionAll(r)
			}
			return
		}
	}
	if sl, ok := m.Expr.(*ast.SliceExpr); ok {
		v := env.eval(sl)
		s := v.V.(Slice)
		et := v.T.Underlying().(*types.Slice).Elem()
		hi := c.Add(s.P.O, c.Mul(s.Len, c.Const(64, uint64(sizeof(et)))))
		st.facts = append(st.facts, c.havocRange(&st.heap, s.P.R, s.P.O, hi, et, cond)...)
		if fr.dry != nil {
			fr.dry.noteRegion(s.P.R, et)
		}
		return
	}
	p, t := env.lvalue(m.Expr)
	var as []*Term
	nv := c.Fresh(t, "mod", false, &as)
	for _, a := range as {
		st.assume(a)
	}
	e.addExtents(st, nv, t)
	if cond != nil {
		nv = c.IteVal(cond, nv, c.Load(&st.heap, p, 0, t))
	}
	c.Store_(&st.heap, p, 0, t, nv)
	if fr.dry != nil {
		fr.dry.noteStore(c, p, t)
	}
}

// modRangesOf evaluates the root contract's modifies set at entry.
func (e *Engine) modRangesOf(env *specEnv, spec *FuncSpec) []modRange {
	c := e.C
	var out []modRange
	defer func() {
		// attach conditions
		for i, m := range spec.Modifies {
			if m.Cond != nil && i < len(out) {
				out[i].Cond = env.boolTerm(env.eval(m.Cond))
			}
		}
	}()
	for _, m := range spec.Modifies {
		if id, ok := m.Expr.(*ast.Ident); ok && id.Name == "heap" {
			out = append(out, modRange{R: nil, Text: "heap"})
			continue
		}
		if call, ok := m.Expr.(*ast.CallExpr); ok {
			if id, ok := call.Fun.(*ast.Ident); ok && id.Name == "bytes" && len(call.Args) == 2 {
				// bytes(p, n): the n bytes at an unsafe pointer
				s := env.eval(call).V.(Slice)
				out = append(out, modRange{R: s.P.R, Lo: s.P.O, Hi: c.Add(s.P.O, s.Len), Text: m.Text})
				continue
			}
			if id, ok := call.Fun.(*ast.Ident); ok && (id.Name == "bytes" || id.Name == "elems") {
				v := env.eval(call.Args[0])
				s := v.V.(Slice)
				et := v.T.Underlying().(*types.Slice).Elem()
				out = append(out, modRange{R: s.P.R, Lo: s.P.O, Hi: c.Add(s.P.O, c.Mul(s.Cap, c.Const(64, uint64(sizeof(et))))), Text: m.Text})
				continue
			}
			if id, ok := call.Fun.(*ast.Ident); ok && id.Name == "region" {
				v := env.eval(call.Args[0])
				out = append(out, modRange{R: regionOf(v.V), Lo: c.Const(64, 0), Hi: c.Const(64, 1<<62), Text: m.Text})
				continue
			}
		}
		if sl, ok := m.Expr.(*ast.SliceExpr); ok {
			v := env.eval(sl)
			s := v.V.(Slice)
			et := v.T.Underlying().(*types.Slice).Elem()
			out = append(out, modRange{R: s.P.R, Lo: s.P.O, Hi: c.Add(s.P.O, c.Mul(s.Len, c.Const(64, uint64(sizeof(et))))), Text: m.Text})
			continue
		}
		p, t := env.lvalue(m.Expr)
		out = append(out, modRange{R: p.R, Lo: p.O, Hi: c.Add(p.O, c.Const(64, uint64(sizeof(t)))), Text: m.Text})
	}
	return out
}

// restoreKept re-establishes, after a havoc of the whole heap, the contents of the regions the root
// contract assumes calls through function-typed parameters to preserve.
func (e *Engine) restoreKept(st *State, old Heap) {
	c := e.C
	if e.cur == nil {
		return
	}
	for _, r := range e.cur.keepRegions {
		for kd := 0; kd < NKinds; kd++ {
			st.heap.K[kd] = c.Store(st.heap.K[kd], r, c.Select(old.K[kd], r))
		}
	}
	for _, sl := range e.cur.keepTargets {
		k := c.FreshVar("q_t", BV(64))
		// region of the k-th element (read in the entry heap: the array itself is a kept region)
		rk := c.Select(c.Select(e.cur.entry.heap.K[KPR], sl.P.R), c.Add(sl.P.O, c.Mul(k, c.Const(64, 8))))
		var eqs []*Term
		for kd := 0; kd < NKinds; kd++ {
			eqs = append(eqs, c.Eq(c.Select(st.heap.K[kd], rk), c.Select(old.K[kd], rk)))
		}
		guard := c.And(c.Sle(c.Const(64, 0), k), c.Slt(k, sl.Len))
		st.facts = append(st.facts, e.mkFact(k, c.Implies(guard, c.And(eqs...))))
	}
}

// isPureLeaf: the function body contains only loads, arithmetic, control flow and calls to other
// pure leaves (so it cannot change the heap and can be merged back into a single path).
func (e *Engine) isPureLeaf(fn *ssa.Function, depth int) bool {
	if v, ok := e.pureMemo[fn]; ok {
		return v
	}
	if e.pureMemo == nil {
		e.pureMemo = map[*ssa.Function]bool{}
	}
	if depth > 4 || len(fn.Blocks) == 0 {
		return false
	}
	e.pureMemo[fn] = false // recursion guard
	ok := true
	for _, b := range fn.Blocks {
		for _, in := range b.Instrs {
			switch x := in.(type) {
			case *ssa.BinOp, *ssa.If, *ssa.Jump, *ssa.Return, *ssa.Phi, *ssa.Convert, *ssa.ChangeType, *ssa.Field,
				*ssa.FieldAddr, *ssa.IndexAddr, *ssa.Index, *ssa.Slice, *ssa.Extract, *ssa.DebugRef, *ssa.ChangeInterface:
			case *ssa.UnOp:
			case *ssa.Lookup:
				if !isString(x.X.Type()) {
					ok = false
				}
			case *ssa.Call:
				cm := x.Common()
				switch cal := cm.Value.(type) {
				case *ssa.Builtin:
					if n := cal.Name(); n != "len" && n != "cap" && n != "min" && n != "max" {
						ok = false
					}
				case *ssa.Function:
					if e.Specs[FuncKey(cal)] != nil || !e.isPureLeaf(cal, depth+1) {
						ok = false
					}
				default:
					ok = false
				}
			default:
				ok = false
			}
		}
	}
	e.pureMemo[fn] = ok
	return ok
}

// Standard-library packages whose small helpers are inlined from their Go source like any leaf.
var inlineStdlib = map[string]bool{"encoding/binary": true, "math": true, "math/bits": true, "unsafe": true, "unicode/utf8": false}

// Side-effect-free standard-library constructors/formatters, modelled as "fresh result, heap untouched"
// (listed in evidence under trusted_base as extern models).
var externPure = map[string]string{
	"errors.New": "nonnil", "fmt.Errorf": "nonnil", "fmt.Sprintf": "val", "fmt.Sprint": "val", "fmt.Sprintln": "val",
	"strconv.Itoa": "val", "strconv.FormatInt": "val", "strconv.FormatUint": "val", "strconv.FormatFloat": "val", "strconv.Quote": "val",
	"strconv.FormatBool": "val", "strconv.ParseInt": "val", "strconv.ParseUint": "val", "strconv.ParseFloat": "val", "strconv.ParseBool": "val", "strconv.Atoi": "val",
	"strings.ToLower": "val", "strings.ToUpper": "val", "strings.TrimSpace": "val", "strings.HasPrefix": "val", "strings.HasSuffix": "val",
	"strings.Contains": "val", "strings.Index": "val", "strings.EqualFold": "val", "unicode/utf8.ValidString": "val", "unicode/utf8.Valid": "val",
	"bytes.Equal": "val", "bytes.Compare": "val", "math.IsNaN": "val", "math.IsInf": "val", "reflect.TypeOf": "val", "reflect.ValueOf": "val",
}

// externCall handles static calls to functions outside the repository that are not inlined.
func (e *Engine) externCall(fr *frame, x *ssa.Call, key string, fn *ssa.Function, args []Value, st *State, k func(st *State, res Value)) bool {
	var pkgPath string
	if fn.Pkg != nil {
		pkgPath = fn.Pkg.Pkg.Path()
	} else if fn.Object() != nil && fn.Object().Pkg() != nil {
		pkgPath = fn.Object().Pkg().Path()
	}
	if pkgPath == ModPath || strings.HasPrefix(pkgPath, ModPath+"/") {
		return false
	}
	if inlineStdlib[pkgPath] && len(fn.Blocks) > 0 {
		return false
	}
	c := e.C
	if kind, ok := externPure[key]; ok {
		e.noteAbstract("extern model " + key)
		var res Value
		if rt := x.Type(); rt != nil {
			if tp, isT := rt.(*types.Tuple); !isT || tp.Len() > 0 {
				var as []*Term
				res = c.Fresh(rt, "ext."+fn.Name(), false, &as)
				for _, a := range as {
					st.assume(a)
				}
				// results live in memory allocated by the callee
				res = e.freshenRegions(st, res)
				if kind == "nonnil" {
					if iv, isI := res.(Iface); isI {
						st.assume(c.Ne(iv.Typ, c.Const(TypW, 0)))
					}
				}
				// fmt.Sprintf with a constant format that starts with literal text yields a non-empty string
				if key == "fmt.Sprintf" && len(args) > 0 {
					if fs, isS := args[0].(Str); isS && fs.P.R.IsConst() {
						if lit, ok := e.strByRegion[uint32(fs.P.R.Val)]; ok && len(lit) > 0 && lit[0] != '%' {
							if rs, isR := res.(Str); isR {
								st.assume(c.Slt(c.Const(64, 0), rs.Len))
							}
						}
					}
				}
			}
		}
		if key == "bytes.Equal" && len(args) == 2 {
			// bytes.Equal(a, b) == true  ==>  same length and the same byte at every index
			a, aok := args[0].(Slice)
			b, bok := args[1].(Slice)
			if r, rok := res.(Scalar); aok && bok && rok {
				st.assume(c.Implies(r.T, c.Eq(a.Len, b.Len)))
				j := c.FreshVar("q_eq", BV(64))
				ba := c.loadCell(&st.heap, K8, Ptr{a.P.R, c.Add(a.P.O, j)}, 0)
				bb := c.loadCell(&st.heap, K8, Ptr{b.P.R, c.Add(b.P.O, j)}, 0)
				guard := c.And(r.T, c.Sle(c.Const(64, 0), j), c.Slt(j, a.Len))
				st.facts = append(st.facts, e.mkFact(j, c.Implies(guard, c.Eq(ba, bb))))
			}
		}
		k(st, res)
		return true
	}
	e.abstractCall(fr, x, "extern "+ShortKey(key), st, k)
	return true
}

// freshenRegions binds the data pointers of strings/slices in v to newly allocated regions (the
// callee allocated them; their contents are unknown).
func (e *Engine) freshenRegions(st *State, v Value) Value {
	c := e.C
	switch x := v.(type) {
	case Str:
		r := e.newRegion()
		return Str{Ptr{r, c.Const(64, 0)}, x.Len}
	case Slice:
		r := e.newRegion()
		return Slice{Ptr{r, c.Const(64, 0)}, x.Len, x.Cap}
	case Tuple:
		out := Tuple{}
		for _, el := range x.E {
			out.E = append(out.E, e.freshenRegions(st, el))
		}
		return out
	}
	return v
}

// withStrLit: a heap in which the bytes of a (short) string constant are present at its fixed region, for use as
// the source of a copy — string constants are otherwise only known to the byte-indexing code.
func (e *Engine) withStrLit(h Heap, p Ptr) Heap {
	if !p.R.IsConst() {
		return h
	}
	lit, ok := e.strByRegion[uint32(p.R.Val)]
	if !ok || len(lit) > 64 {
		return h
	}
	c := e.C
	for i := 0; i < len(lit); i++ {
		c.Store_(&h, Ptr{p.R, c.Const(64, uint64(i))}, 0, types.Typ[types.Uint8], Scalar{T: c.Const(8, uint64(lit[i]))})
	}
	return h
}
