package eng

import (
	"fmt"
	"go/types"

	"golang.org/x/tools/go/ssa"
)

// Symbolic values mirror Go types (DESIGN §3.7).

type Value interface{ isValue() }

type Scalar struct {
	T *Term // Bool sort for Go bool, BV otherwise (floats: bit pattern)
	R *Term // provenance region for uintptr obtained from a pointer (nil otherwise)
}
type Ptr struct{ R, O *Term }
type Slice struct {
	P        Ptr
	Len, Cap *Term
}
type Str struct {
	P   Ptr
	Len *Term
}
type Iface struct {
	Typ *Term // BV32 dynamic type id, 0 = nil interface
	P   Ptr   // data word (box or pointer)
}
type Struct struct{ F []Value }
type Arr struct{ E []Value }
type Tuple struct{ E []Value }
type FuncV struct {
	Fn   *ssa.Function
	Bind []Value
	P    Ptr // opaque handle when Fn == nil
}

func (Scalar) isValue() {}
func (Ptr) isValue()    {}
func (Slice) isValue()  {}
func (Str) isValue()    {}
func (Iface) isValue()  {}
func (Struct) isValue() {}
func (Arr) isValue()    {}
func (Tuple) isValue()  {}
func (FuncV) isValue()  {}

var sizes = types.SizesFor("gc", "amd64")

func sizeof(t types.Type) int64 { return sizes.Sizeof(t) }

// intInfo returns width and signedness of a basic integer-like type.
func intInfo(t types.Type) (w int, signed bool, ok bool) {
	b, isb := t.Underlying().(*types.Basic)
	if !isb {
		return 0, false, false
	}
	switch b.Kind() {
	case types.Int8:
		return 8, true, true
	case types.Int16:
		return 16, true, true
	case types.Int32:
		return 32, true, true
	case types.Int64, types.Int, types.UntypedInt, types.UntypedRune:
		return 64, true, true
	case types.Uint8:
		return 8, false, true
	case types.Uint16:
		return 16, false, true
	case types.Uint32:
		return 32, false, true
	case types.Uint64, types.Uint, types.Uintptr:
		return 64, false, true
	case types.Float32:
		return 32, false, true
	case types.Float64, types.UntypedFloat:
		return 64, false, true
	}
	return 0, false, false
}

func isFloat(t types.Type) bool {
	b, ok := t.Underlying().(*types.Basic)
	return ok && b.Info()&types.IsFloat != 0
}
func isBool(t types.Type) bool {
	b, ok := t.Underlying().(*types.Basic)
	return ok && b.Info()&types.IsBoolean != 0
}
func isString(t types.Type) bool {
	b, ok := t.Underlying().(*types.Basic)
	return ok && b.Info()&types.IsString != 0
}
func isPointerShaped(t types.Type) bool {
	switch u := t.Underlying().(type) {
	case *types.Pointer, *types.Map, *types.Chan, *types.Signature:
		return true
	case *types.Basic:
		return u.Kind() == types.UnsafePointer
	}
	return false
}

func (c *Ctx) NilPtr() Ptr { return Ptr{c.Const(RgnW, 0), c.Const(64, 0)} }

// Zero value of a type.
func (c *Ctx) Zero(t types.Type) Value {
	switch u := t.Underlying().(type) {
	case *types.Basic:
		switch {
		case u.Info()&types.IsBoolean != 0:
			return Scalar{T: c.False()}
		case u.Info()&types.IsString != 0:
			return Str{c.NilPtr(), c.Const(64, 0)}
		case u.Kind() == types.UnsafePointer:
			return c.NilPtr()
		case u.Kind() == types.UntypedNil:
			return c.NilPtr()
		}
		w, _, ok := intInfo(t)
		if !ok {
			panic(fmt.Sprintf("Zero: unsupported basic %s", t))
		}
		return Scalar{T: c.Const(w, 0)}
	case *types.Pointer, *types.Map, *types.Chan:
		return c.NilPtr()
	case *types.Signature:
		return FuncV{P: c.NilPtr()}
	case *types.Slice:
		return Slice{c.NilPtr(), c.Const(64, 0), c.Const(64, 0)}
	case *types.Interface:
		return Iface{c.Const(TypW, 0), c.NilPtr()}
	case *types.Struct:
		s := Struct{}
		for i := 0; i < u.NumFields(); i++ {
			s.F = append(s.F, c.Zero(u.Field(i).Type()))
		}
		return s
	case *types.Array:
		if u.Len() > 1024 {
			panic(fmt.Sprintf("Zero: array too large %s", t))
		}
		a := Arr{}
		for i := int64(0); i < u.Len(); i++ {
			a.E = append(a.E, c.Zero(u.Elem()))
		}
		return a
	case *types.Tuple:
		tp := Tuple{}
		for i := 0; i < u.Len(); i++ {
			tp.E = append(tp.E, c.Zero(u.At(i).Type()))
		}
		return tp
	}
	panic(fmt.Sprintf("Zero: unsupported type %s", t))
}

// Fresh symbolic value of a type. low: pointers' regions are classified "low" (parameters, initial heap).
// Assumptions (well-formedness of slices/strings) are appended to *as.
func (c *Ctx) Fresh(t types.Type, prefix string, low bool, as *[]*Term) Value {
	fp := func(pfx string) Ptr {
		var r *Term
		if low {
			r = c.FreshLowVar(pfx+".rgn", BV(RgnW))
		} else {
			r = c.FreshVar(pfx+".rgn", BV(RgnW))
		}
		o := c.FreshVar(pfx+".off", BV(64))
		if as != nil {
			*as = append(*as, c.Ult(o, c.Const(64, 1<<47)))
			// nil has offset 0
			*as = append(*as, c.Implies(c.Eq(r, c.Const(RgnW, 0)), c.Eq(o, c.Const(64, 0))))
		}
		return Ptr{r, o}
	}
	switch u := t.Underlying().(type) {
	case *types.Basic:
		switch {
		case u.Info()&types.IsBoolean != 0:
			return Scalar{T: c.FreshVar(prefix, BoolSort())}
		case u.Info()&types.IsString != 0:
			p := fp(prefix + ".ptr")
			l := c.FreshVar(prefix+".len", BV(64))
			if as != nil {
				*as = append(*as, c.Sle(c.Const(64, 0), l), c.Slt(l, c.Const(64, 1<<40)))
				*as = append(*as, c.Implies(c.IsNil(p), c.Eq(l, c.Const(64, 0))))
			}
			return Str{p, l}
		case u.Kind() == types.UnsafePointer:
			return fp(prefix)
		}
		w, _, ok := intInfo(t)
		if !ok {
			panic(fmt.Sprintf("Fresh: unsupported basic %s", t))
		}
		return Scalar{T: c.FreshVar(prefix, BV(w))}
	case *types.Pointer, *types.Map, *types.Chan:
		return fp(prefix)
	case *types.Signature:
		return FuncV{P: fp(prefix)}
	case *types.Slice:
		p := fp(prefix + ".ptr")
		l := c.FreshVar(prefix+".len", BV(64))
		cp := c.FreshVar(prefix+".cap", BV(64))
		if as != nil {
			*as = append(*as, c.Sle(c.Const(64, 0), l), c.Sle(l, cp), c.Slt(cp, c.Const(64, 1<<40)))
			*as = append(*as, c.Implies(c.IsNil(p), c.Eq(cp, c.Const(64, 0))))
		}
		return Slice{p, l, cp}
	case *types.Interface:
		ty := c.FreshVar(prefix+".typ", BV(TypW))
		return Iface{ty, fp(prefix + ".data")}
	case *types.Struct:
		s := Struct{}
		for i := 0; i < u.NumFields(); i++ {
			s.F = append(s.F, c.Fresh(u.Field(i).Type(), prefix+"."+u.Field(i).Name(), low, as))
		}
		return s
	case *types.Array:
		if u.Len() > 64 {
			panic(fmt.Sprintf("Fresh: array too large %s", t))
		}
		a := Arr{}
		for i := int64(0); i < u.Len(); i++ {
			a.E = append(a.E, c.Fresh(u.Elem(), fmt.Sprintf("%s[%d]", prefix, i), low, as))
		}
		return a
	case *types.Tuple:
		tp := Tuple{}
		for i := 0; i < u.Len(); i++ {
			tp.E = append(tp.E, c.Fresh(u.At(i).Type(), fmt.Sprintf("%s#%d", prefix, i), low, as))
		}
		return tp
	}
	panic(fmt.Sprintf("Fresh: unsupported type %s", t))
}

// wfAssume returns well-formedness assumptions for a value loaded from memory (slices, strings).
func (c *Ctx) wfAssume(v Value, as *[]*Term) {
	switch x := v.(type) {
	case Slice:
		*as = append(*as, c.Sle(c.Const(64, 0), x.Len), c.Sle(x.Len, x.Cap), c.Slt(x.Cap, c.Const(64, 1<<40)),
			c.Ult(x.P.O, c.Const(64, 1<<47)), c.Implies(c.IsNil(x.P), c.Eq(x.Cap, c.Const(64, 0))))
	case Str:
		*as = append(*as, c.Sle(c.Const(64, 0), x.Len), c.Slt(x.Len, c.Const(64, 1<<40)), c.Ult(x.P.O, c.Const(64, 1<<47)),
			c.Implies(c.IsNil(x.P), c.Eq(x.Len, c.Const(64, 0))))
	case Struct:
		for _, f := range x.F {
			c.wfAssume(f, as)
		}
	case Arr:
		for _, f := range x.E {
			c.wfAssume(f, as)
		}
	}
}

func (c *Ctx) IteVal(cond *Term, a, b Value) Value {
	if cond.IsTrue() {
		return a
	}
	if cond.IsFalse() {
		return b
	}
	ip := func(x, y Ptr) Ptr { return Ptr{c.Ite(cond, x.R, y.R), c.Ite(cond, x.O, y.O)} }
	switch x := a.(type) {
	case Scalar:
		y := b.(Scalar)
		r := Scalar{T: c.Ite(cond, x.T, y.T)}
		if x.R != nil && y.R != nil {
			r.R = c.Ite(cond, x.R, y.R)
		}
		return r
	case Ptr:
		return ip(x, b.(Ptr))
	case Slice:
		y := b.(Slice)
		return Slice{ip(x.P, y.P), c.Ite(cond, x.Len, y.Len), c.Ite(cond, x.Cap, y.Cap)}
	case Str:
		y := b.(Str)
		return Str{ip(x.P, y.P), c.Ite(cond, x.Len, y.Len)}
	case Iface:
		y := b.(Iface)
		return Iface{c.Ite(cond, x.Typ, y.Typ), ip(x.P, y.P)}
	case Struct:
		y := b.(Struct)
		r := Struct{}
		for i := range x.F {
			r.F = append(r.F, c.IteVal(cond, x.F[i], y.F[i]))
		}
		return r
	case Arr:
		y := b.(Arr)
		r := Arr{}
		for i := range x.E {
			r.E = append(r.E, c.IteVal(cond, x.E[i], y.E[i]))
		}
		return r
	case Tuple:
		y := b.(Tuple)
		r := Tuple{}
		for i := range x.E {
			r.E = append(r.E, c.IteVal(cond, x.E[i], y.E[i]))
		}
		return r
	case FuncV:
		y := b.(FuncV)
		if x.Fn == y.Fn && x.Fn != nil {
			return x
		}
		return FuncV{P: ip(x.P, y.P)}
	}
	panic("IteVal")
}

// PtrEq: pointer equality; comparison with the nil constant looks at the region only (a nil pointer is
// region 0, whatever its offset word).
func (c *Ctx) PtrEq(a, b Ptr) *Term {
	if b.R.IsConst() && b.R.Val == 0 {
		return c.Eq(a.R, b.R)
	}
	if a.R.IsConst() && a.R.Val == 0 {
		return c.Eq(a.R, b.R)
	}
	return c.And(c.Eq(a.R, b.R), c.Eq(a.O, b.O))
}
func (c *Ctx) IsNil(p Ptr) *Term { return c.Eq(p.R, c.Const(RgnW, 0)) }

// EqVal builds structural equality for comparable values; strings compare via the uninterpreted
// predicate streq over (region, offset, len) triples plus length equality.
func (c *Ctx) EqVal(a, b Value, h *Heap) *Term {
	switch x := a.(type) {
	case Scalar:
		return c.Eq(x.T, b.(Scalar).T)
	case Ptr:
		switch y := b.(type) {
		case Ptr:
			return c.PtrEq(x, y)
		case FuncV:
			return c.PtrEq(x, y.P)
		}
	case FuncV:
		switch y := b.(type) {
		case Ptr:
			return c.PtrEq(x.P, y)
		case FuncV:
			return c.PtrEq(x.P, y.P)
		}
	case Slice: // only comparison with nil reaches here
		y := b.(Slice)
		return c.PtrEq(x.P, y.P)
	case Str:
		y := b.(Str)
		return c.StrEq(x, y, h)
	case Iface:
		y := b.(Iface)
		// nil comparison is exact; otherwise type ids and data words
		return c.And(c.Eq(x.Typ, y.Typ), c.Or(c.Eq(x.Typ, c.Const(TypW, 0)), c.PtrEq(x.P, y.P)))
	case Struct:
		y := b.(Struct)
		var cs []*Term
		for i := range x.F {
			cs = append(cs, c.EqVal(x.F[i], y.F[i], h))
		}
		return c.And(cs...)
	case Arr:
		y := b.(Arr)
		var cs []*Term
		for i := range x.E {
			cs = append(cs, c.EqVal(x.E[i], y.E[i], h))
		}
		return c.And(cs...)
	}
	panic(fmt.Sprintf("EqVal: unsupported %T vs %T", a, b))
}

// StrEq: equal lengths and (len == 0 or byte-wise equal). For constant small lengths the bytes are
// expanded; otherwise an uninterpreted predicate over the two inner byte arrays and offsets is used.
func (c *Ctx) StrEq(x, y Str, h *Heap) *Term {
	leq := c.Eq(x.Len, y.Len)
	if leq.IsFalse() {
		return leq
	}
	var n *Term
	if x.Len.IsConst() {
		n = x.Len
	} else if y.Len.IsConst() {
		n = y.Len
	}
	if n != nil && n.Val <= 24 && h != nil {
		cs := []*Term{leq}
		for i := uint64(0); i < n.Val; i++ {
			bx := c.Select(c.Select(h.K[K8], x.P.R), c.Add(x.P.O, c.Const(64, i)))
			by := c.Select(c.Select(h.K[K8], y.P.R), c.Add(y.P.O, c.Const(64, i)))
			cs = append(cs, c.Eq(bx, by))
		}
		return c.And(cs...)
	}
	if x.P.R == y.P.R && x.P.O == y.P.O {
		return leq
	}
	if h == nil {
		return c.And(leq, c.FreshVar("streq", BoolSort()))
	}
	ax, ay := c.Select(h.K[K8], x.P.R), c.Select(h.K[K8], y.P.R)
	return c.And(leq, c.App("streq", BoolSort(), ax, x.P.O, ay, y.P.O, x.Len))
}
