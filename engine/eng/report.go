package eng

// LoadAllSpecs reads the contract files for every loaded package and registers them.
func (e *Engine) LoadAllSpecs(specDir string) error {
	ss, src, err := LoadSpecs(e.P, specDir)
	if err != nil {
		return err
	}
	e.SpecSource = src
	for k, v := range ss.Funcs {
		e.Specs[k] = v
	}
	for k, v := range ss.Pures {
		e.Pures[k] = v
	}
	e.TypeInvs = append(e.TypeInvs, ss.TypeInvs...)
	for k := range ss.NonNil {
		e.NonNil[k] = true
	}
	for k := range ss.Frozen {
		e.Frozen[k] = true
	}
	e.SpecFiles = ss.Files
	return nil
}

func CmdCheck(args []string) int { return 2 }
