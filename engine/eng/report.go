package eng

import (
	"bufio"
	"encoding/json"
	"flag"
	"fmt"
	"os"
	"path/filepath"
	"sort"
	"strconv"
	"strings"
	"time"
)

// LoadAllSpecs reads the contract files for every loaded package and registers them.
func (e *Engine) LoadAllSpecs(specDir string) error {
	ss, src, err := LoadSpecs(e.P, specDir)
	if err != nil {
		return err
	}
	e.SpecSource = src
	for k, v := range ss.Funcs {
		e.Specs[k] = v
	}
	for k, v := range ss.Pures {
		e.Pures[k] = v
	}
	e.TypeInvs = append(e.TypeInvs, ss.TypeInvs...)
	for k := range ss.NonNil {
		e.NonNil[k] = true
	}
	for k := range ss.Frozen {
		e.Frozen[k] = true
	}
	e.GlobalFacts = append(e.GlobalFacts, ss.GlobalFacts...)
	e.SpecFiles = ss.Files
	return nil
}

// ---------------------------------------------------------------------------------------------
// Known findings (committed file, never written at run time)

type KnownFinding struct {
	Property   string `json:"property"`
	Obligation string `json:"obligation"`
	Status     string `json:"status"` // known | fixed
	What       string `json:"what"`
	Witness    string `json:"witness,omitempty"`
	Commit     string `json:"commit,omitempty"`
}

func loadKnown(path string) []KnownFinding {
	f, err := os.Open(path)
	if err != nil {
		return nil
	}
	defer f.Close()
	var out []KnownFinding
	sc := bufio.NewScanner(f)
	sc.Buffer(make([]byte, 1<<20), 1<<20)
	for sc.Scan() {
		l := strings.TrimSpace(sc.Text())
		if l == "" || strings.HasPrefix(l, "#") || strings.HasPrefix(l, "//") || strings.HasPrefix(l, "fixed:") {
			continue
		}
		var k KnownFinding
		if json.Unmarshal([]byte(l), &k) == nil {
			out = append(out, k)
		}
	}
	return out
}

// ---------------------------------------------------------------------------------------------
// Which packages carry contracts for a property (cheap text scan of the spec files)

func specPackagesFor(repo, specDir, prop string) ([]string, error) {
	seen := map[string]bool{}
	var out []string
	scan := func(root string, isRepo bool) {
		filepath.Walk(root, func(p string, info os.FileInfo, err error) error {
			if err != nil || info.IsDir() {
				if info != nil && info.IsDir() && (info.Name() == ".git" || info.Name() == "ext" && !isRepo) {
					return filepath.SkipDir
				}
				return nil
			}
			if info.Name() != "contracts_verif.go" {
				return nil
			}
			rel, _ := filepath.Rel(root, filepath.Dir(p))
			b, _ := os.ReadFile(p)
			if prop == "" || strings.Contains(string(b), prop) {
				if !seen[rel] {
					seen[rel] = true
					out = append(out, "./"+rel)
				}
			}
			return nil
		})
	}
	scan(specDir, false)
	scan(repo, true)
	sort.Strings(out)
	return out, nil
}

// ---------------------------------------------------------------------------------------------
// check command

type sample struct {
	Obligation string  `json:"obligation"`
	Kind       string  `json:"kind"`
	Function   string  `json:"function"`
	Position   string  `json:"position,omitempty"`
	Verdict    string  `json:"verdict"`
	Solver     string  `json:"solver,omitempty"`
	Seconds    float64 `json:"seconds"`
	Path       string  `json:"path,omitempty"`
}

func hasProp(ps []string, p string) bool {
	for _, x := range ps {
		if x == p {
			return true
		}
	}
	return false
}

func CmdCheck(args []string) int {
	fs := flag.NewFlagSet("check", flag.ExitOnError)
	prop := fs.String("prop", "", "property id")
	tier := fs.String("tier", os.Getenv("VERIF_TIER"), "quick|thorough")
	repo := fs.String("repo", "/repo", "repository working tree")
	verif := fs.String("verif", "/verif", "verif dir")
	only := fs.String("f", "", "restrict to functions containing this substring (debug)")
	fs.Parse(args)
	if *tier != "thorough" {
		*tier = "quick"
	}
	seed, _ := strconv.Atoi(os.Getenv("VERIF_SEED"))
	t0 := time.Now()
	specDir := filepath.Join(*verif, "specs")
	evPath := filepath.Join(*verif, "evidence", *prop+".json")
	os.MkdirAll(filepath.Dir(evPath), 0o755)
	os.Remove(evPath)
	fail := func(msg string) int {
		fmt.Printf("dgv: %s\n", msg)
		rp := filepath.Join(*verif, "replays", *prop, "engine-error.json")
		os.MkdirAll(filepath.Dir(rp), 0o755)
		b, _ := json.MarshalIndent(map[string]string{"property": *prop, "error": msg}, "", " ")
		os.WriteFile(rp, b, 0o644)
		fmt.Printf("VIOLATION property=%s replay=%s no-failing-input-found\n", *prop, rp)
		return 1
	}
	pkgs, _ := specPackagesFor(*repo, specDir, *prop)
	if len(pkgs) == 0 {
		return fail("no contract mentions property " + *prop)
	}
	p, err := LoadProgram(*repo, pkgs)
	if err != nil {
		return fail("cannot load the repository: " + err.Error())
	}
	e := NewEngine(p)
	if err := e.LoadAllSpecs(specDir); err != nil {
		return fail("cannot load contracts: " + err.Error())
	}
	e.MakeReplayer(*verif, 60)
	e.Tier = *tier
	loadSecs := time.Since(t0).Seconds()
	// functions in the slice: tagged with the property, closed under contract use
	var work []string
	inSlice := map[string]bool{}
	for k, s := range e.Specs {
		if hasProp(s.Props, *prop) && (*only == "" || strings.Contains(k, *only)) {
			work = append(work, k)
			inSlice[k] = true
		}
	}
	sort.Strings(work)
	// quick: 15 s per solver call (most queries answer in well under a second; the margin is for loaded or
	// slower machines), unknowns are retried alone with 60 s; thorough: 60 s / 120 s
	timeout := 15
	if *tier == "thorough" {
		timeout = 60
	}
	scratch, _ := os.MkdirTemp("", "dgv-")
	if d := os.Getenv("DGV_SCRATCH"); d != "" {
		os.MkdirAll(d, 0o755)
		scratch, _ = os.MkdirTemp(d, "dgv-")
	}
	defer os.RemoveAll(scratch)
	var results []*FuncResult
	var all []*Oblig
	tagged := len(work)
	for i := 0; i < len(work); i++ {
		k := work[i]
		r := e.VerifyFunc(k)
		results = append(results, r)
		all = append(all, r.Obligs...)
		for _, u := range r.Used {
			if !inSlice[u] {
				inSlice[u] = true
				work = append(work, u)
			}
		}
	}
	// thorough tier: every SMT "unsat" is re-checked by a second solver and every decision of the in-house
	// interval prover by an SMT solver; a model from either is reported as a violation (disagreement)
	stats := e.SolveAll(all, SolveOpts{Timeout: timeout, Scratch: scratch, Workers: 16, Cross: *tier == "thorough"})
	// re-run unknowns alone (a query that timed out under 16-way load gets one more chance)
	var retry []*Oblig
	for _, o := range all {
		if o.Verdict == "unknown" {
			retry = append(retry, o)
		}
	}
	if len(retry) > 0 && len(retry) <= 64 {
		rt := timeout * 2
		if rt < 60 {
			rt = 60
		}
		e.SolveAll(retry, SolveOpts{Timeout: rt, Scratch: scratch, Workers: 4, Cross: *tier == "thorough"})
	}
	known := loadKnown(filepath.Join(*verif, "known_findings.jsonl"))
	knownBy := map[string]KnownFinding{}
	for _, k := range known {
		if k.Property == *prop && k.Status == "known" {
			knownBy[k.Obligation] = k
		}
	}
	// classify
	total, discharged, trivial := 0, 0, 0
	var violations []*Oblig
	knownHit := map[string]bool{}
	var samples []sample
	var funcs []string
	abstracted := map[string]bool{}
	trusted := map[string]bool{}
	paths := 0
	var engineErrs []string
	for _, r := range results {
		funcs = append(funcs, ShortKey(r.Key))
		trivial += r.Trivial
		paths += r.Paths
		for _, a := range r.Abstracted {
			abstracted[ShortKey(r.Key)+": "+a] = true
		}
		if r.Spec != nil && r.Spec.Trusted {
			trusted["trusted contract: "+ShortKey(r.Key)] = true
		}
		for _, n := range r.SkippedThorough {
			trusted["clause proved in the thorough tier only (assumed by callers in the quick tier): "+ShortKey(r.Key)+"#post:"+n] = true
		}
		if r.Err != "" {
			engineErrs = append(engineErrs, ShortKey(r.Key)+": "+r.Err)
			o := &Oblig{ID: ShortKey(r.Key) + "#subset", Kind: "subset", Fn: r.Key, Verdict: "unknown", Output: r.Err}
			r.Obligs = append(r.Obligs, o)
			all = append(all, o)
		}
	}
	for _, o := range all {
		good := o.Verdict == "unsat" && !o.Cover || o.Cover && o.Verdict == "sat"
		if _, isKnown := knownBy[o.ID]; isKnown && !good {
			knownHit[o.ID] = true
			continue
		}
		total++
		if good {
			discharged++
		} else {
			violations = append(violations, o)
		}
		if len(samples) < 12 && (len(samples) < 4 || !good) {
			samples = append(samples, sample{o.ID, o.Kind, ShortKey(o.Fn), o.Pos, o.Verdict, o.Solver, round3(o.Secs), o.Path})
		}
	}
	sort.Strings(funcs)
	// report
	exit := 0
	for id := range knownHit {
		fmt.Printf("KNOWN-FINDING: property=%s %s — %s\n", *prop, id, knownBy[id].What)
	}
	for id, k := range knownBy {
		if !knownHit[id] {
			fmt.Printf("note: known finding %s did not fail on this tree (stale entry?) — %s\n", id, k.What)
		}
	}
	seenViol := map[string]bool{}
	for _, o := range violations {
		exit = 1
		if seenViol[o.ID] {
			continue
		}
		seenViol[o.ID] = true
		rp := e.writeReplay(*verif, *prop, o)
		suffix := ""
		if !o.Replayed {
			suffix = " no-failing-input-found"
		}
		fmt.Printf("VIOLATION property=%s replay=%s%s\n", *prop, rp, suffix)
	}
	crossNote := ""
	if *tier == "thorough" {
		crossNote = "; thorough tier: every SMT unsat is re-run on cvc5 and every decision of the in-house interval prover on z3-new — a model from either fails the obligation (per_backend.cross-checked counts the confirmations, per_backend.disagreement the contradictions)"
	}
	wall := time.Since(t0).Seconds()
	var solverSecs float64
	for _, s := range stats.Secs {
		solverSecs += s
	}
	tb := []string{
		"dgv VC generator (SSA semantics of DESIGN §3, gc/amd64 layout), go/ssa, SMT solvers z3 5.1.0 / cvc5 1.0 / z3 4.8.12",
		"standing size assumption: 0 <= len <= cap < 2^40, offsets < 2^47 for every slice/string",
		"spec functions are transcriptions of the Thrift binary / Protobuf encoding specifications",
	}
	for k := range trusted {
		tb = append(tb, k)
	}
	for k := range abstracted {
		tb = append(tb, "abstracted (havoc/arbitrary result): "+k)
	}
	sort.Strings(tb[3:])
	var knownList []string
	for id := range knownHit {
		knownList = append(knownList, id)
	}
	sort.Strings(knownList)
	ev := map[string]interface{}{
		"property_id": *prop,
		"tier":        *tier,
		"seed":        seed,
		"level":       "proof",
		"wall_s":      round3(wall),
		"violations":  len(seenViol),
		"coverage": map[string]interface{}{
			"obligations":               total,
			"discharged":                discharged,
			"obligations_trivial":       trivial,
			"obligations_known_failing": knownList,
			"checker_cmd":               "z3-new -T:" + strconv.Itoa(timeout) + " <vc>.smt2  (then cvc5 / z3 4.8.12 raced on unknown); VCs generated by /verif/bin/dgv check -prop " + *prop + " -tier " + *tier + crossNote,
			"trusted_base":              tb,
			"functions_under_contract":  funcs,
			"functions_tagged":          tagged,
			"paths":                     paths,
			"per_backend":               stats.PerSolver,
			"solver_seconds":            round3(solverSecs),
			"load_seconds":              round3(loadSecs),
			"spec_source":               e.SpecSource,
			"engine_errors":             engineErrs,
			"samples":                   samples,
			"explanation":               "each obligation is one SMT query (negated goal under the path condition) generated from go/ssa of the current /repo tree; discharged = unsat on some back end (covers: sat)",
		},
		"assumptions": tb,
	}
	b, _ := json.MarshalIndent(ev, "", " ")
	os.WriteFile(evPath, b, 0o644)
	fmt.Printf("dgv: property %s tier %s: %d functions, %d obligations (+%d trivial), %d discharged, %d known findings, %d violations, %.1fs (load %.1fs, solvers %.1fs)\n",
		*prop, *tier, len(results), total, trivial, discharged, len(knownHit), len(seenViol), wall, loadSecs, solverSecs)
	return exit
}

func round3(f float64) float64 { return float64(int(f*1000+0.5)) / 1000 }

// writeReplay stores the failed obligation with the solver output (and model) and tries to confirm
// a model against the real code.
func (e *Engine) writeReplay(verif, prop string, o *Oblig) string {
	dir := filepath.Join(verif, "replays", prop)
	os.MkdirAll(dir, 0o755)
	name := sanitize(o.ID)
	if len(name) > 150 {
		name = name[:150]
	}
	rp := filepath.Join(dir, name+".json")
	smt := ""
	if o.SMTFile != "" {
		if b, err := os.ReadFile(o.SMTFile); err == nil {
			smt = string(b)
			if len(smt) > 400000 {
				smt = smt[:400000] + "\n; … truncated"
			}
		}
	}
	out := o.Output
	if len(out) > 20000 {
		out = out[:20000]
	}
	rec := map[string]interface{}{
		"property":      prop,
		"obligation":    o.ID,
		"kind":          o.Kind,
		"function":      o.Fn,
		"position":      o.Pos,
		"path":          o.Path,
		"verdict":       o.Verdict,
		"solver":        o.Solver,
		"solver_output": out,
		"smt2":          smt,
	}
	if o.Verdict == "sat" && e.Replayer != nil {
		inputs, ok, log := e.Replayer(o)
		rec["inputs"] = inputs
		rec["replay_log"] = log
		o.Replayed = ok
	}
	rec["replayed_on_real_code"] = o.Replayed
	b, _ := json.MarshalIndent(rec, "", " ")
	os.WriteFile(rp, b, 0o644)
	return rp
}

// CmdReplay prints a replay file and, when it carries a harness, runs it again on /repo.
func CmdReplay(args []string) int {
	if len(args) < 1 {
		fmt.Println("usage: dgv replay <file>")
		return 2
	}
	b, err := os.ReadFile(args[0])
	if err != nil {
		fmt.Println(err)
		return 2
	}
	var rec map[string]interface{}
	if err := json.Unmarshal(b, &rec); err != nil {
		fmt.Println(err)
		return 2
	}
	fmt.Printf("property   %v\nobligation %v\nfunction   %v\nposition   %v\nverdict    %v (%v)\npath       %v\nreplayed   %v\n", rec["property"], rec["obligation"],
		rec["function"], rec["position"], rec["verdict"], rec["solver"], rec["path"], rec["replayed_on_real_code"])
	if in, ok := rec["inputs"]; ok {
		ib, _ := json.Marshal(in)
		fmt.Printf("inputs     %s\n", ib)
	}
	log, _ := rec["replay_log"].(string)
	i := strings.Index(log, "harness:\n")
	j := strings.Index(log, "\noutput:\n")
	if i < 0 || j < i {
		fmt.Println("no harness recorded (the verifier produced no replayable input); solver output:")
		fmt.Println(rec["solver_output"])
		return 0
	}
	src := log[i+len("harness:\n") : j]
	fn, _ := rec["function"].(string)
	k := strings.LastIndex(fn, ".")
	pkg := fn
	// function keys are "<pkgpath>.<name>" or "<pkgpath>.(T).m"
	if p := strings.Index(fn, ".("); p >= 0 {
		pkg = fn[:p]
	} else if k >= 0 {
		pkg = fn[:k]
	}
	out, err := runOverlayTest("/repo", pkg, src, 60)
	fmt.Println(out)
	if err != nil {
		fmt.Println("exit:", err)
	}
	return 0
}
