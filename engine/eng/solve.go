package eng

import (
	"bytes"
	"context"
	"fmt"
	"os"
	"os/exec"
	"path/filepath"
	"regexp"
	"strings"
	"sync"
	"time"
)

// ---------------------------------------------------------------------------------------------
// Generator-side instantiation of quantified facts (DESIGN §5.2)

func (e *Engine) instantiate(assumps []*Term, goal *Term, facts []*QFact) []*Term {
	c := e.C
	if len(facts) == 0 {
		return assumps
	}
	out := append([]*Term(nil), assumps...)
	// index triggers by array term
	type trig struct {
		f *QFact
		t Trigger
	}
	byArr := map[*Term][]trig{}
	for _, f := range facts {
		for _, t := range f.Trig {
			byArr[t.Arr] = append(byArr[t.Arr], trig{f, t})
		}
	}
	done := map[string]bool{}
	seenSel := map[*Term]bool{}
	work := append([]*Term(nil), assumps...)
	if goal != nil {
		work = append(work, goal)
	}
	total := 0
	for round := 0; round < 6 && len(work) > 0; round++ {
		var sels []*Term
		Walk(work, func(t *Term) {
			if t.Op == OSelect && t.S.K != SArr && !seenSel[t] {
				seenSel[t] = true
				sels = append(sels, t)
			}
		})
		work = nil
		for _, s := range sels {
			var tgs []trig
			for _, a := range innerCandidates(s.Args[0], 0) {
				tgs = append(tgs, byArr[a]...)
			}
			for _, tg := range tgs {
				inst := s.Args[1]
				if tg.t.Base != nil {
					inst = c.Sub(inst, tg.t.Base)
				}
				if tg.t.Coef > 1 {
					// any instance of a universal fact is sound; this one makes the trigger term match.
					// Divide exactly when every coefficient of the (linear) index is a multiple of the stride.
					m := map[*Term]uint64{}
					var k0 uint64
					c.linearize(inst, 1, m, &k0)
					sc := int64(tg.t.Coef)
					exact := sc > 0 && int64(k0)%sc == 0
					for _, co := range m {
						if sc <= 0 || int64(co)%sc != 0 {
							exact = false
						}
					}
					if exact {
						// (sum of multiples of the stride) / stride, coefficients read as signed
						for a, co := range m {
							m[a] = uint64(int64(co) / sc)
						}
						inst = c.fromLinear(inst.S, m, uint64(int64(k0)/sc))
					} else {
						inst = c.UDiv(inst, c.Const(64, tg.t.Coef))
					}
				}
				key := fmt.Sprintf("%p/%d", tg.f, inst.ID)
				if done[key] {
					continue
				}
				done[key] = true
				total++
				if total > 4000 {
					return out
				}
				b := c.Subst(tg.f.Body, map[*Term]*Term{tg.f.Bound: inst})
				if b.IsTrue() {
					continue
				}
				out = append(out, b)
				work = append(work, b)
			}
		}
	}
	return out
}

// propagateEqs: assumptions of the form (t == const) or (var == t) are used as rewrite rules on all
// other assumptions and the goal (the defining equation itself is kept); region disequalities found
// among the assumptions are made known to the simplifier while terms are rebuilt, so that
// select-over-store chains resolve. Returns the substitution used.
func (e *Engine) propagateEqs(assumps []*Term, goal *Term) ([]*Term, *Term, map[*Term]*Term) {
	c := e.C
	all := map[*Term]*Term{}
	if c.localDistinct == nil {
		c.localDistinct = map[[2]int]bool{}
	}
	for round := 0; round < 4; round++ {
		sub := map[*Term]*Term{}
		def := map[*Term][]*Term{} // assumption -> rule keys it defines
		nd := 0
		for _, a := range assumps {
			if a.Op == ONot && a.Args[0].Op == OEq && a.Args[0].Args[0].S.K == SBV && a.Args[0].Args[0].S.W == RgnW {
				x, y := a.Args[0].Args[0], a.Args[0].Args[1]
				k := [2]int{x.ID, y.ID}
				if !c.localDistinct[k] {
					c.localDistinct[k] = true
					c.localDistinct[[2]int{y.ID, x.ID}] = true
					nd++
				}
				continue
			}
			// boolean unit propagation: an assumed literal rewrites its atom elsewhere
			if a.Op != OOr && a.Op != OAnd && !a.IsConst() {
				atom, val := a, c.True()
				if a.Op == ONot {
					atom, val = a.Args[0], c.False()
				}
				if _, dup := all[atom]; !dup && atom.Op != OVar {
					if _, dup2 := sub[atom]; !dup2 {
						sub[atom] = val
						def[a] = append(def[a], atom)
					}
				}
			}
			if a.Op != OEq || a.Args[0].S.K != SBV {
				continue
			}
			x, y := a.Args[0], a.Args[1]
			// orient: replace x by y
			switch {
			case y.IsConst() && !x.IsConst():
			case x.IsConst() && !y.IsConst():
				x, y = y, x
			case x.Op == OVar && y.Op == OVar:
				if x.ID < y.ID {
					x, y = y, x
				}
			case x.Op == OVar && !Mentions(y, map[*Term]bool{x: true}):
			case y.Op == OVar && !Mentions(x, map[*Term]bool{y: true}):
				x, y = y, x
			default:
				continue
			}
			if _, dup := all[x]; dup {
				continue
			}
			if _, dup := sub[x]; dup {
				continue
			}
			if x.Op == OVar && mentionsRecApp(y) {
				// keep cursor variables: rewriting them into sums of recursive size functions hides the
				// simple order facts (old <= new <= len) that decide most bounds goals
				continue
			}
			delete(sub, a) // the equation is used as a rewrite rule instead of a unit
			def[a] = nil
			// avoid cyclic rules within a round
			cyc := false
			for k := range sub {
				if Mentions(y, map[*Term]bool{k: true}) {
					cyc = true
				}
			}
			if cyc {
				continue
			}
			sub[x] = y
			def[a] = append(def[a], x)
		}
		if len(sub) == 0 && nd == 0 {
			break
		}
		var out []*Term
		shared := map[*Term]*Term{} // memo for every rebuild of this round that uses the whole of sub
		for _, a := range assumps {
			if a.Op == ONot && a.Args[0].Op == OEq && a.Args[0].Args[0].S.K == SBV && a.Args[0].Args[0].S.W == RgnW {
				// a region disequality is kept for the solver as it stands: rebuilding it would
				// simplify it away by the very knowledge it provides
				out = append(out, a)
				continue
			}
			use := sub
			memo := shared
			if keys, ok := def[a]; ok {
				memo = map[*Term]*Term{}
				// a defining assumption is rewritten by all rules but its own
				use = make(map[*Term]*Term, len(sub))
				for k, v := range sub {
					use[k] = v
				}
				for _, k := range keys {
					delete(use, k)
				}
				delete(use, a)
			}
			n := c.RebuildMemo(a, use, memo)
			if n.IsTrue() {
				continue
			}
			out = append(out, n)
		}
		assumps = out
		if goal != nil {
			goal = c.RebuildMemo(goal, sub, shared)
		}
		for k, v := range sub {
			all[k] = v
		}
	}
	return assumps, goal, all
}

// innerCandidates: the inner-array terms a read through arr may hit: arr itself, the branches of an
// ite, and — when arr is select(store-chain, r) with r not syntactically resolved — every inner array
// stored in that chain (possible aliasing of regions).
func innerCandidates(arr *Term, depth int) []*Term {
	out := []*Term{arr}
	if depth > 3 {
		return out
	}
	switch arr.Op {
	case OIte:
		out = append(out, innerCandidates(arr.Args[1], depth+1)...)
		out = append(out, innerCandidates(arr.Args[2], depth+1)...)
	case OSelect:
		h := arr.Args[0]
		for h.Op == OStore {
			out = append(out, innerCandidates(h.Args[2], depth+1)...)
			h = h.Args[0]
		}
	case OStore:
		// inner array with point updates: reads may fall through to the base
		out = append(out, innerCandidates(arr.Args[0], depth+1)...)
	}
	return out
}

// ---------------------------------------------------------------------------------------------
// Solver portfolio

type SolverCfg struct {
	Name string
	Args func(file string, timeout int) []string
}

var Solvers = []SolverCfg{
	{"z3-new", func(f string, t int) []string {
		return []string{"z3-new", fmt.Sprintf("-T:%d", t), "sat.random_seed=7", "smt.random_seed=7", f}
	}},
	{"cvc5", func(f string, t int) []string {
		return []string{"cvc5", fmt.Sprintf("--tlimit=%d", t*1000), "--seed=7", f}
	}},
	{"z3", func(f string, t int) []string { return []string{"z3", fmt.Sprintf("-T:%d", t), f} }},
}

type SolveOpts struct {
	Cross   bool // thorough tier: cross-check unsat verdicts with a second solver and the interval prover with SMT
	Timeout int  // seconds per solver
	Scratch string
	Workers int
	KeepAll bool
}

type SolveStats struct {
	mu        sync.Mutex
	PerSolver map[string]int
	Secs      map[string]float64
	Queries   int
}

func runSolver(cfg SolverCfg, file string, timeout int) (verdict, out string, secs float64) {
	return runSolverCtx(context.Background(), cfg, file, timeout)
}

func runSolverCtx(parent context.Context, cfg SolverCfg, file string, timeout int) (verdict, out string, secs float64) {
	args := cfg.Args(file, timeout)
	ctx, cancel := context.WithTimeout(parent, time.Duration(timeout+2)*time.Second)
	defer cancel()
	cmd := exec.CommandContext(ctx, args[0], args[1:]...)
	var buf bytes.Buffer
	cmd.Stdout = &buf
	cmd.Stderr = &buf
	t0 := time.Now()
	_ = cmd.Run()
	secs = time.Since(t0).Seconds()
	out = buf.String()
	first := strings.TrimSpace(strings.SplitN(out, "\n", 2)[0])
	switch first {
	case "sat", "unsat":
		verdict = first
	default:
		verdict = "unknown"
	}
	return
}

// raceStagger is how long the first solver runs alone before the others are started beside it.
const raceStagger = 2 * time.Second

// raceSolvers runs the portfolio on one query: the first solver starts at once, the others join after
// raceStagger if it has not answered; the first decisive answer (sat / unsat) wins and the rest are
// stopped. "unknown" only if every solver gave up.
func raceSolvers(file string, timeout int) (verdict, out, name string, secs float64) {
	ctx, cancel := context.WithCancel(context.Background())
	defer cancel()
	type res struct {
		v, out, name string
	}
	t0 := time.Now()
	ch := make(chan res, len(Solvers))
	start := func(s SolverCfg) {
		go func() {
			v, out, _ := runSolverCtx(ctx, s, file, timeout)
			ch <- res{v, out, s.Name}
		}()
	}
	start(Solvers[0])
	running, started := 1, false
	timer := time.NewTimer(raceStagger)
	defer timer.Stop()
	verdict, name = "unknown", Solvers[0].Name
	for running > 0 {
		select {
		case <-timer.C:
			if !started {
				started = true
				for _, s := range Solvers[1:] {
					start(s)
					running++
				}
			}
		case r := <-ch:
			running--
			if r.v != "unknown" {
				return r.v, r.out, r.name, time.Since(t0).Seconds()
			}
			if r.name == Solvers[0].Name {
				out = r.out
			}
			if !started {
				// the first solver gave up early: let the others try
				started = true
				for _, s := range Solvers[1:] {
					start(s)
					running++
				}
			}
		}
	}
	return verdict, out, name, time.Since(t0).Seconds()
}

// Solve discharges one obligation. Verdict semantics: for ordinary obligations "unsat" = proved,
// "sat" = refuted with model; for covers "sat" = reachable.
func (e *Engine) Solve(o *Oblig, opts SolveOpts, stats *SolveStats, prep *sync.Mutex) {
	prep.Lock()
	var script string
	byInterval := false
	func() {
		defer func() { e.C.localDistinct = nil }()
		defer func() {
			if r := recover(); r != nil {
				o.Verdict = "unknown"
				o.Output = fmt.Sprintf("engine error while building the query: %v", r)
			}
		}()
		var goal *Term
		assumps := o.Assumps
		if !o.Cover {
			goal = o.Goal
			var sub map[*Term]*Term
			assumps, goal, sub = e.propagateEqs(assumps, goal)
			facts := o.Facts
			if len(sub) > 0 || len(e.C.localDistinct) > 0 {
				facts = nil
				fmemo := map[*Term]*Term{}
				for _, f := range o.Facts {
					nf := &QFact{Bound: f.Bound, Body: e.C.RebuildMemo(f.Body, sub, fmemo)}
					for _, tg := range f.Trig {
						nt := Trigger{Arr: e.C.RebuildMemo(tg.Arr, sub, fmemo), Coef: tg.Coef}
						if tg.Base != nil {
							nt.Base = e.C.RebuildMemo(tg.Base, sub, fmemo)
						}
						nf.Trig = append(nf.Trig, nt)
					}
					facts = append(facts, nf)
				}
			}
			assumps = e.instantiate(assumps, goal, facts)
			// defining equations of recursive spec functions, then one more round of instances for the
			// array reads they introduce
			fuel := e.Fuel
			if fuel == 0 {
				fuel = 1
			}
			if sp := e.Specs[o.Fn]; sp != nil && sp.Fuel > 0 {
				fuel = sp.Fuel
			}
			// defining equations are only brought in when the goal itself speaks about a rec function
			goalHasRec := false
			Walk([]*Term{goal}, func(t *Term) {
				if t.Op == OApp && strings.HasPrefix(t.Name, "rec.") {
					goalHasRec = true
				}
			})
			if !goalHasRec {
				fuel = 0
			}
			if defs := e.unfoldRecs(append(append([]*Term(nil), assumps...), goal), fuel); len(defs) > 0 {
				assumps = append(assumps, defs...)
				assumps = e.instantiate(assumps, goal, facts)
			}
			assumps, goal, _ = e.propagateEqs(assumps, goal)
			if goal.IsTrue() {
				o.Verdict, o.Solver = "unsat", "dgv-simplifier"
				return
			}
			if e.linearDischarge(assumps, goal) {
				o.Verdict, o.Solver = "unsat", "dgv-interval"
				if !opts.Cross {
					return
				}
				// thorough tier: the in-house decision is cross-checked by an SMT solver below
				byInterval = true
			}
		}
		hdr := fmt.Sprintf("; obligation %s\n; function %s\n; position %s\n; path %s\n", o.ID, o.Fn, o.Pos, o.Path)
		var gv []*Term
		if !o.Cover {
			for _, it := range o.Inputs {
				gv = append(gv, it.T)
			}
			for _, it := range o.Outputs {
				gv = append(gv, it.T)
			}
		}
		o.modelTerms = gv
		script = e.C.EmitSMT(assumps, goal, hdr, true, gv)
	}()
	prep.Unlock()
	if o.Verdict == "unsat" && strings.HasPrefix(o.Solver, "dgv-") && !byInterval {
		stats.mu.Lock()
		stats.Queries++
		stats.PerSolver[o.Solver]++
		stats.mu.Unlock()
		return
	}
	if script == "" {
		return
	}
	nm := sanitize(o.ID)
	if len(nm) > 120 {
		nm = nm[:120]
	}
	file := filepath.Join(opts.Scratch, nm+fmt.Sprintf("-%p.smt2", o))
	if err := os.WriteFile(file, []byte(script), 0o644); err != nil {
		o.Verdict, o.Output = "unknown", err.Error()
		return
	}
	o.SMTFile = file
	timeout := opts.Timeout
	if sp := e.Specs[o.Fn]; sp != nil && sp.Timeout > timeout {
		timeout = sp.Timeout
	}
	var v, out string
	var secs float64
	winner := Solvers[0].Name
	if byInterval {
		v, out, secs = runSolver(Solvers[0], file, timeout)
	} else {
		v, out, winner, secs = raceSolvers(file, timeout)
	}
	if byInterval {
		// cross-check of the interval prover: only a model refutes it; unknown leaves its decision standing
		stats.mu.Lock()
		stats.Queries++
		stats.Secs[Solvers[0].Name] += secs
		if v == "sat" {
			stats.PerSolver["disagreement"]++
		} else {
			stats.PerSolver["dgv-interval"]++
			if v == "unsat" {
				stats.PerSolver["cross-checked"]++
			}
		}
		stats.mu.Unlock()
		if v == "sat" {
			o.Verdict, o.Solver, o.Output = "sat", "dgv-interval vs "+Solvers[0].Name, "DISAGREEMENT: dgv-interval proved the goal, "+Solvers[0].Name+" found a model\n"+out
			o.Model = parseValues(out, o.modelTerms)
			return
		}
		o.Verdict, o.Solver, o.Secs = "unsat", "dgv-interval", secs
		os.Remove(file)
		o.SMTFile = ""
		return
	}
	o.Solver, o.Secs = winner, secs
	if v == "unsat" && opts.Cross && !o.Cover {
		// thorough tier: a second solver must not contradict the first
		second := Solvers[1]
		if winner == second.Name {
			second = Solvers[0]
		}
		// the cross-check can only refute (a model) — an "unknown" from it changes nothing — so it gets a short budget
		xt := timeout
		if xt > 10 {
			xt = 10
		}
		v2, out2, secs2 := runSolver(second, file, xt)
		o.Secs += secs2
		stats.mu.Lock()
		stats.Secs[second.Name] += secs2
		if v2 == "unsat" {
			stats.PerSolver["cross-checked"]++
		}
		stats.mu.Unlock()
		if v2 == "sat" {
			v, out = "sat", "DISAGREEMENT: "+winner+" says unsat, "+second.Name+" found a model\n"+out2
			o.Solver = winner + " vs " + second.Name
			stats.mu.Lock()
			stats.PerSolver["disagreement"]++
			stats.mu.Unlock()
		}
	}
	o.Verdict = v
	o.Output = out
	if v == "sat" {
		o.Model = parseValues(out, o.modelTerms)
	}
	stats.mu.Lock()
	stats.Queries++
	stats.PerSolver[o.Solver]++
	stats.Secs[o.Solver] += o.Secs
	stats.mu.Unlock()
	keep := opts.KeepAll
	if o.Cover {
		keep = keep || v != "sat"
	} else {
		keep = keep || v != "unsat"
	}
	if !keep {
		os.Remove(file)
		o.SMTFile = ""
	}
}

var gvRe = regexp.MustCompile(`\(\s*gv(\d+)\s+(#x[0-9a-fA-F]+|#b[01]+|true|false)\s*\)`)

// parseValues reads the (get-value (gv0 gv1 …)) answer.
func parseValues(out string, terms []*Term) map[string]string {
	m := map[string]string{}
	for _, mm := range gvRe.FindAllStringSubmatch(out, -1) {
		var i int
		fmt.Sscanf(mm[1], "%d", &i)
		if i < len(terms) {
			m[fmt.Sprintf("%d", terms[i].ID)] = mm[2]
		}
	}
	return m
}

// SolveAll discharges all obligations with a worker pool.
func (e *Engine) SolveAll(obs []*Oblig, opts SolveOpts) *SolveStats {
	stats := &SolveStats{PerSolver: map[string]int{}, Secs: map[string]float64{}}
	var prep sync.Mutex
	ch := make(chan *Oblig)
	var wg sync.WaitGroup
	for i := 0; i < opts.Workers; i++ {
		wg.Add(1)
		go func() {
			defer wg.Done()
			for o := range ch {
				e.Solve(o, opts, stats, &prep)
			}
		}()
	}
	for _, o := range obs {
		ch <- o
	}
	close(ch)
	wg.Wait()
	return stats
}

func mentionsRecApp(t *Term) bool {
	found := false
	Walk([]*Term{t}, func(x *Term) {
		if x.Op == OApp && strings.HasPrefix(x.Name, "rec.") {
			found = true
		}
	})
	return found
}
