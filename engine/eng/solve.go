package eng

import (
	"bytes"
	"context"
	"fmt"
	"os"
	"os/exec"
	"path/filepath"
	"regexp"
	"strings"
	"sync"
	"time"
)

// ---------------------------------------------------------------------------------------------
// Generator-side instantiation of quantified facts (DESIGN §5.2)

func (e *Engine) instantiate(assumps []*Term, goal *Term, facts []*QFact) []*Term {
	c := e.C
	if len(facts) == 0 {
		return assumps
	}
	out := append([]*Term(nil), assumps...)
	// index triggers by array term
	type trig struct {
		f *QFact
		t Trigger
	}
	byArr := map[*Term][]trig{}
	for _, f := range facts {
		for _, t := range f.Trig {
			byArr[t.Arr] = append(byArr[t.Arr], trig{f, t})
		}
	}
	done := map[string]bool{}
	seenSel := map[*Term]bool{}
	work := append([]*Term(nil), assumps...)
	if goal != nil {
		work = append(work, goal)
	}
	total := 0
	for round := 0; round < 4 && len(work) > 0; round++ {
		var sels []*Term
		Walk(work, func(t *Term) {
			if t.Op == OSelect && t.S.K != SArr && !seenSel[t] {
				seenSel[t] = true
				sels = append(sels, t)
			}
		})
		work = nil
		for _, s := range sels {
			for _, tg := range byArr[s.Args[0]] {
				inst := s.Args[1]
				if tg.t.Base != nil {
					inst = c.Sub(inst, tg.t.Base)
				}
				key := fmt.Sprintf("%p/%d", tg.f, inst.ID)
				if done[key] {
					continue
				}
				done[key] = true
				total++
				if total > 4000 {
					return out
				}
				b := c.Subst(tg.f.Body, map[*Term]*Term{tg.f.Bound: inst})
				if b.IsTrue() {
					continue
				}
				out = append(out, b)
				work = append(work, b)
			}
		}
	}
	return out
}

// ---------------------------------------------------------------------------------------------
// Solver portfolio

type SolverCfg struct {
	Name string
	Args func(file string, timeout int) []string
}

var Solvers = []SolverCfg{
	{"z3-new", func(f string, t int) []string { return []string{"z3-new", fmt.Sprintf("-T:%d", t), "sat.random_seed=7", "smt.random_seed=7", f} }},
	{"cvc5", func(f string, t int) []string { return []string{"cvc5", fmt.Sprintf("--tlimit=%d", t*1000), "--seed=7", f} }},
	{"z3", func(f string, t int) []string { return []string{"z3", fmt.Sprintf("-T:%d", t), f} }},
}

type SolveOpts struct {
	Timeout  int // seconds per solver
	Scratch  string
	Workers  int
	KeepAll  bool
}

type SolveStats struct {
	mu        sync.Mutex
	PerSolver map[string]int
	Secs      map[string]float64
	Queries   int
}

func runSolver(cfg SolverCfg, file string, timeout int) (verdict, out string, secs float64) {
	args := cfg.Args(file, timeout)
	ctx, cancel := context.WithTimeout(context.Background(), time.Duration(timeout+2)*time.Second)
	defer cancel()
	cmd := exec.CommandContext(ctx, args[0], args[1:]...)
	var buf bytes.Buffer
	cmd.Stdout = &buf
	cmd.Stderr = &buf
	t0 := time.Now()
	_ = cmd.Run()
	secs = time.Since(t0).Seconds()
	out = buf.String()
	first := strings.TrimSpace(strings.SplitN(out, "\n", 2)[0])
	switch first {
	case "sat", "unsat":
		verdict = first
	default:
		verdict = "unknown"
	}
	return
}

// Solve discharges one obligation. Verdict semantics: for ordinary obligations "unsat" = proved,
// "sat" = refuted with model; for covers "sat" = reachable.
func (e *Engine) Solve(o *Oblig, opts SolveOpts, stats *SolveStats, prep *sync.Mutex) {
	prep.Lock()
	var script string
	func() {
		defer func() {
			if r := recover(); r != nil {
				o.Verdict = "unknown"
				o.Output = fmt.Sprintf("engine error while building the query: %v", r)
			}
		}()
		var goal *Term
		assumps := o.Assumps
		if !o.Cover {
			goal = o.Goal
			assumps = e.instantiate(o.Assumps, o.Goal, o.Facts)
		}
		hdr := fmt.Sprintf("; obligation %s\n; function %s\n; position %s\n; path %s\n", o.ID, o.Fn, o.Pos, o.Path)
		var gv []*Term
		if e.ModelTerms != nil && !o.Cover {
			gv = e.ModelTerms(o)
		}
		o.modelTerms = gv
		script = e.C.EmitSMT(assumps, goal, hdr, true, gv)
	}()
	prep.Unlock()
	if script == "" {
		return
	}
	nm := sanitize(o.ID)
	if len(nm) > 120 {
		nm = nm[:120]
	}
	file := filepath.Join(opts.Scratch, nm+fmt.Sprintf("-%p.smt2", o))
	if err := os.WriteFile(file, []byte(script), 0o644); err != nil {
		o.Verdict, o.Output = "unknown", err.Error()
		return
	}
	o.SMTFile = file
	v, out, secs := runSolver(Solvers[0], file, opts.Timeout)
	o.Solver, o.Secs = Solvers[0].Name, secs
	if v == "unknown" {
		// race the other two
		type res struct {
			v, out, name string
			secs         float64
		}
		ch := make(chan res, 2)
		for _, s := range Solvers[1:] {
			s := s
			go func() {
				v, out, secs := runSolver(s, file, opts.Timeout)
				ch <- res{v, out, s.Name, secs}
			}()
		}
		for i := 0; i < 2; i++ {
			r := <-ch
			o.Secs += r.secs
			if r.v != "unknown" && v == "unknown" {
				v, out, o.Solver = r.v, r.out, r.name
			}
		}
	}
	o.Verdict = v
	o.Output = out
	if v == "sat" {
		o.Model = parseValues(out, o.modelTerms)
	}
	stats.mu.Lock()
	stats.Queries++
	stats.PerSolver[o.Solver]++
	stats.Secs[o.Solver] += o.Secs
	stats.mu.Unlock()
	keep := opts.KeepAll
	if o.Cover {
		keep = keep || v != "sat"
	} else {
		keep = keep || v != "unsat"
	}
	if !keep {
		os.Remove(file)
		o.SMTFile = ""
	}
}

var gvRe = regexp.MustCompile(`\(\s*gv(\d+)\s+(#x[0-9a-fA-F]+|#b[01]+|true|false)\s*\)`)

// parseValues reads the (get-value (gv0 gv1 …)) answer.
func parseValues(out string, terms []*Term) map[string]string {
	m := map[string]string{}
	for _, mm := range gvRe.FindAllStringSubmatch(out, -1) {
		var i int
		fmt.Sscanf(mm[1], "%d", &i)
		if i < len(terms) {
			m[fmt.Sprintf("%d", terms[i].ID)] = mm[2]
		}
	}
	return m
}
// SolveAll discharges all obligations with a worker pool.
func (e *Engine) SolveAll(obs []*Oblig, opts SolveOpts) *SolveStats {
	stats := &SolveStats{PerSolver: map[string]int{}, Secs: map[string]float64{}}
	var prep sync.Mutex
	ch := make(chan *Oblig)
	var wg sync.WaitGroup
	for i := 0; i < opts.Workers; i++ {
		wg.Add(1)
		go func() {
			defer wg.Done()
			for o := range ch {
				e.Solve(o, opts, stats, &prep)
			}
		}()
	}
	for _, o := range obs {
		ch <- o
	}
	close(ch)
	wg.Wait()
	return stats
}
