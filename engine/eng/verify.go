package eng

import (
	"fmt"
	"go/ast"
	"go/types"
	"os"
	"runtime/debug"
	"sort"
	"strings"
	"time"

	"golang.org/x/tools/go/ssa"
)

// ---------------------------------------------------------------------------------------------
// Quantifier markers → goals and facts

func (e *Engine) hasMarker(t *Term) bool {
	found := false
	Walk([]*Term{t}, func(x *Term) {
		if _, ok := e.quants[x]; ok {
			found = true
		}
	})
	return found
}

// resolve replaces markers by their bodies where the polarity allows treating the bound variable as
// a fresh constant: positive occurrences in goals, negative occurrences in assumptions.
func (e *Engine) resolve(t *Term, positive, goalMode bool) *Term {
	c := e.C
	if q, ok := e.quants[t]; ok {
		if positive == goalMode {
			return e.resolve(q.body, positive, goalMode)
		}
		specErr("quantifier in unsupported position (polarity)")
	}
	if !e.hasMarker(t) {
		return t
	}
	switch t.Op {
	case OAnd:
		var as []*Term
		for _, a := range t.Args {
			as = append(as, e.resolve(a, positive, goalMode))
		}
		return c.And(as...)
	case OOr:
		var as []*Term
		for _, a := range t.Args {
			as = append(as, e.resolve(a, positive, goalMode))
		}
		return c.Or(as...)
	case ONot:
		return c.Not(e.resolve(t.Args[0], !positive, goalMode))
	case OIte:
		if e.hasMarker(t.Args[0]) {
			specErr("quantifier inside ite condition")
		}
		return c.Ite(t.Args[0], e.resolve(t.Args[1], positive, goalMode), e.resolve(t.Args[2], positive, goalMode))
	}
	specErr("quantifier under operator %s (write <==> as two implications)", opName[t.Op])
	return nil
}

func (e *Engine) mkFact(bound, body *Term) *QFact {
	c := e.C
	f := &QFact{Bound: bound, Body: body}
	seen := map[string]bool{}
	bset := map[*Term]bool{bound: true}
	Walk([]*Term{body}, func(x *Term) {
		if x.Op != OSelect || x.S.K == SArr {
			return
		}
		arr, idx := x.Args[0], x.Args[1]
		if Mentions(arr, bset) || !Mentions(idx, bset) {
			return
		}
		var base *Term
		coef := uint64(1)
		if idx != bound {
			// idx = base + coef*bound ?
			m := map[*Term]uint64{}
			var k0 uint64
			c.linearize(idx, 1, m, &k0)
			co, ok := m[bound]
			if !ok || co == 0 {
				return
			}
			coef = co
			delete(m, bound)
			base = c.fromLinear(idx.S, m, k0)
			if Mentions(base, bset) {
				return
			}
			if base.IsConst() && base.Val == 0 {
				base = nil
			}
		}
		k := fmt.Sprintf("%d/%v/%d", arr.ID, base, coef)
		if !seen[k] {
			seen[k] = true
			f.Trig = append(f.Trig, Trigger{Arr: arr, Base: base, Coef: coef})
		}
	})
	return f
}

// clauseGoal evaluates a clause to be proved: returns the goal and facts that may be assumed
// (negative top-level quantifiers).
func (e *Engine) clauseGoal(env *specEnv, cl *Clause) (*Term, []*QFact) {
	c := e.C
	env.assume = false
	t := env.boolTerm(env.eval(cl.Expr))
	if !e.hasMarker(t) {
		return t, nil
	}
	var facts []*QFact
	var rest []*Term
	ds := []*Term{t}
	if t.Op == OOr {
		ds = t.Args
	}
	for _, d := range ds {
		if d.Op == ONot {
			if q, ok := e.quants[d.Args[0]]; ok {
				facts = append(facts, e.mkFact(q.bound, e.resolve(q.body, false, true)))
				continue
			}
		}
		rest = append(rest, e.resolve(d, true, true))
	}
	return c.Or(rest...), facts
}

// clauseAssume evaluates a clause to be assumed: returns its quantifier-free part and the facts.
func (e *Engine) clauseAssume(env *specEnv, cl *Clause) (*Term, []*QFact) {
	c := e.C
	env.assume = true
	t := env.boolTerm(env.eval(cl.Expr))
	if !e.hasMarker(t) {
		return t, nil
	}
	var facts []*QFact
	var keep []*Term
	cs := []*Term{t}
	if t.Op == OAnd {
		cs = t.Args
	}
	for _, cj := range cs {
		if !e.hasMarker(cj) {
			keep = append(keep, cj)
			continue
		}
		ds := []*Term{cj}
		if cj.Op == OOr {
			ds = cj.Args
		}
		var others []*Term
		var q *quantMark
		for _, d := range ds {
			if m, ok := e.quants[d]; ok && q == nil {
				q = m
				continue
			}
			others = append(others, e.resolve(d, true, false))
		}
		if q == nil {
			keep = append(keep, e.resolve(cj, true, false))
			continue
		}
		body := q.body
		if e.hasMarker(body) {
			// nested universal: flatten one level (forall i :: g ==> forall j :: b) is not supported
			specErr("nested quantifier in assumed clause")
		}
		facts = append(facts, e.mkFact(q.bound, c.Or(append(others, body)...)))
	}
	return c.And(keep...), facts
}

func (e *Engine) evalSpecTerm(cl *Clause, rc *rootCtx, st *State, extra map[string]SVal) *Term {
	env := &specEnv{e: e, heap: &st.heap, old: &rc.entry.heap, vars: map[string]SVal{}, bound: map[string]*Term{}, rc: rc}
	if rc.fn.Pkg != nil {
		env.pkg = rc.fn.Pkg.Pkg
	}
	for k, v := range rc.params {
		env.vars[k] = v
	}
	for k, v := range extra {
		env.vars[k] = v
	}
	return env.asInt64(env.toType(env.eval(cl.Expr), types.Typ[types.Int]))
}

// ---------------------------------------------------------------------------------------------
// Root verification of one function against its contract

type FuncResult struct {
	Key             string
	Spec            *FuncSpec
	Obligs          []*Oblig
	Paths           int
	Returns         int
	Trivial         int
	Abstracted      []string
	Err             string // out-of-subset / engine error
	Used            []string
	SkippedThorough []string
}

func (e *Engine) VerifyFunc(key string) (res *FuncResult) {
	c := e.C
	spec := e.Specs[key]
	res = &FuncResult{Key: key, Spec: spec}
	if spec == nil {
		res.Err = "no contract"
		return
	}
	if spec.IsLemma {
		return e.verifyLemma(key, spec)
	}
	fn := e.P.Funcs[key]
	if fn == nil {
		res.Err = "function not found in the loaded program"
		return
	}
	rc := &rootCtx{fn: fn, key: key, spec: spec, nameCnt: map[string]int{}, abstracted: map[string]bool{}, params: map[string]SVal{}, used: map[string]bool{}, skippedThorough: map[string]bool{}}
	e.cur = rc
	e.setRgn(0)
	rc.deadline = time.Now().Add(300 * time.Second)
	if spec != nil && spec.MaxPaths > e.MaxPaths {
		rc.deadline = time.Now().Add(time.Duration(300*spec.MaxPaths/e.MaxPaths) * time.Second)
	}
	defer func() {
		res.Obligs = rc.obligs
		res.Paths = rc.paths + 1
		res.Returns = rc.returns
		res.Trivial = rc.trivial
		res.Abstracted = sortedKeys(rc.abstracted)
		res.Used = sortedKeys(rc.used)
		res.SkippedThorough = sortedKeys(rc.skippedThorough)
		if r := recover(); r != nil {
			if u, ok := r.(Unsupported); ok {
				res.Err = u.Msg
				return
			}
			if os.Getenv("DGV_PANIC") != "" {
				panic(r)
			}
			res.Err = fmt.Sprintf("engine panic: %v", r)
			if os.Getenv("DGV_STACK") != "" {
				res.Err += "\n" + string(debug.Stack())
			}
		}
	}()
	st := &State{heap: c.InitialHeap("0")}
	var args []Value
	for _, p := range fn.Params {
		var as []*Term
		v := c.Fresh(p.Type(), p.Name(), true, &as)
		for _, a := range as {
			st.assume(a)
		}
		args = append(args, v)
		rc.params[p.Name()] = SVal{V: v, T: p.Type()}
		e.addExtents(st, v, p.Type())
	}
	for _, fv := range fn.FreeVars {
		_ = fv
		unsupported("closure free variables at root")
	}
	e.assumeGlobals(st)
	env := e.specEnvFor(fn, spec, args, nil, &st.heap, nil, true)
	if !spec.NoTypeInv {
		vs, tys, names := paramInfo(fn, args)
		e.tiAssume = true
		for _, nt := range e.typeInvTerms(fn, vs, tys, names, &st.heap) {
			st.assume(nt.t)
		}
		e.tiAssume = false
	}
	for _, rq := range spec.Requires {
		t, facts := e.clauseAssume(env, rq)
		st.assume(t)
		st.facts = append(st.facts, facts...)
	}
	for _, cl := range spec.Unfolds {
		if app := env.eval(cl.Expr).V.(Scalar).T; app.Op == OApp {
			if def := e.recDefinition(app); def != nil {
				st.assume(def)
			}
		}
	}
	e.flushWF(st)
	rc.entry = st.clone()
	rc.inputs = e.inputTerms(fn, args, &rc.entry.heap)
	rc.modRanges = e.modRangesOf(env, spec)
	for _, items := range spec.Preserves {
		for _, it := range items {
			// targets(s): every object pointed to by an element of the pointer slice s
			if call, ok := it.Expr.(*ast.CallExpr); ok {
				if id, ok := call.Fun.(*ast.Ident); ok && id.Name == "targets" {
					if sl, ok := env.eval(call.Args[0]).V.(Slice); ok {
						rc.keepTargets = append(rc.keepTargets, sl)
					}
					continue
				}
			}
			if r := regionOf(env.eval(it.Expr).V); r != nil {
				rc.keepRegions = append(rc.keepRegions, r)
			}
		}
	}
	if spec.Decreases != nil {
		rc.variant = env.asInt64(env.toType(env.eval(spec.Decreases.Expr), types.Typ[types.Int]))
	}
	// vacuity guard: the precondition must be satisfiable
	cov := &Oblig{ID: ShortKey(key) + "#cover:pre", Kind: "cover", Fn: key, Goal: c.False(), Cover: true, Props: spec.Props}
	cov.Assumps = append([]*Term(nil), st.pc...)
	rc.obligs = append(rc.obligs, cov)
	if spec.Trusted {
		return
	}
	definedHits := map[string]int{}
	defer func() {
		for i, en := range spec.Ensures {
			if en.Defined && definedHits[clauseName(en, i)] == 0 && res.Err == "" && !(en.Thorough && e.Tier != "thorough") {
				res.Err = "spec: `ensures defined " + clauseName(en, i) + "` names identifiers that are defined at no return point"
			}
		}
	}()
	onRet := func(st2 *State, rets []Value) {
		rc.returns++
		e.curExt = st2.ext
		post := e.specEnvFor(fn, spec, args, rets, &st2.heap, &rc.entry.heap, false)
		// named locals at this return point (never shadowing parameters or results)
		if e.retFrame != nil && e.retFrame.fn == fn && e.retBlock != nil {
			for name, sv := range e.localsAt(e.retFrame, e.retBlock, st2) {
				if _, taken := post.vars[name]; !taken {
					post.vars[name] = sv
				}
			}
		}
		fr := &frame{fn: fn}
		rc.outputs = e.outputTerms(fn, rets, &st2.heap)
		defer func() { rc.outputs = nil }()
		for i, en := range spec.Ensures {
			if en.Thorough && e.Tier != "thorough" {
				rc.skippedThorough[clauseName(en, i)] = true
				continue
			}
			var goal *Term
			var facts []*QFact
			if en.Defined {
				// a clause over the function's own locals: only where they exist
				ok := func() (ok bool) {
					defer func() {
						if r := recover(); r != nil {
							if u, isU := r.(Unsupported); isU && strings.Contains(u.Msg, "unknown identifier") {
								ok = false
								return
							}
							panic(r)
						}
					}()
					goal, facts = e.clauseGoal(post, en)
					return true
				}()
				if !ok {
					continue
				}
				definedHits[clauseName(en, i)]++
			} else {
				goal, facts = e.clauseGoal(post, en)
			}
			s3 := st2
			if len(facts) > 0 {
				s3 = st2.clone()
				s3.facts = append(s3.facts, facts...)
			}
			e.obligeNoAssume(s3, fr, "post", clauseName(en, i), goal)
		}
		if !spec.NoTypeInv {
			vs, tys, names := paramInfo(fn, args)
			for _, nt := range e.typeInvTerms(fn, vs, tys, names, &st2.heap) {
				e.obligeNoAssume(st2, fr, "post", nt.name, nt.t)
			}
		}
	}
	// case splits: one run of the body per combination of case values
	var runCases func(i int, st *State)
	runCases = func(i int, st *State) {
		if i == len(spec.Cases) {
			e.runFunc(fn, args, st.clone(), nil, "", onRet)
			return
		}
		cs := spec.Cases[i]
		if cs.Bool {
			b := env.boolTerm(env.eval(cs.Cl.Expr))
			for _, pol := range []bool{true, false} {
				s2 := st.clone()
				if pol {
					s2.assume(b)
				} else {
					s2.assume(c.Not(b))
				}
				s2.path = append(s2.path, fmt.Sprintf("case %s=%v", cs.Cl.Text, pol))
				runCases(i+1, s2)
			}
			return
		}
		v := env.asInt64(env.toType(env.eval(cs.Cl.Expr), types.Typ[types.Int]))
		var outside []*Term
		for k := cs.Lo; k <= cs.Hi; k++ {
			s2 := st.clone()
			eq := c.Eq(v, c.Const(64, uint64(k)))
			s2.assume(eq)
			s2.path = append(s2.path, fmt.Sprintf("case %s=%d", cs.Cl.Text, k))
			outside = append(outside, c.Not(eq))
			runCases(i+1, s2)
		}
		s2 := st.clone()
		s2.assume(c.And(outside...))
		s2.path = append(s2.path, fmt.Sprintf("case %s=other", cs.Cl.Text))
		runCases(i+1, s2)
	}
	env.assume = false
	runCases(0, st)
	if rc.returns == 0 {
		// a function none of whose paths returns would make every post-condition vacuous
		rc.obligs = append(rc.obligs, &Oblig{ID: ShortKey(key) + "#cover:ret", Kind: "cover", Fn: key, Goal: c.False(), Cover: true,
			Assumps: []*Term{c.False()}, Props: spec.Props})
	}
	return
}

func (e *Engine) obligeNoAssume(st *State, fr *frame, kind, detail string, goal *Term) {
	n := len(st.pc)
	e.oblige(st, fr, kind, detail, goal, 0)
	st.pc = st.pc[:n]
}

// ---------------------------------------------------------------------------------------------
// Globals

func (e *Engine) lookupGlobal(qual string) *ssa.Global {
	i := strings.LastIndex(qual, ".")
	if i < 0 {
		return nil
	}
	pp, ok := e.P.All[qual[:i]]
	if !ok || pp.Types == nil {
		return nil
	}
	pk := e.P.SSA.Package(pp.Types)
	if pk == nil {
		return nil
	}
	g, _ := pk.Members[qual[i+1:]].(*ssa.Global)
	return g
}

// assumeGlobals adds the facts about frozen / non-nil package variables to the entry state.
// refGlobals: package variables referenced by fn or by callees that would be inlined.
func (e *Engine) refGlobals(fn *ssa.Function, depth int, seen map[*ssa.Function]bool, out map[*ssa.Global]bool) {
	if fn == nil || seen[fn] || depth > 7 {
		return
	}
	seen[fn] = true
	for _, b := range fn.Blocks {
		for _, in := range b.Instrs {
			for _, op := range in.Operands(nil) {
				switch x := (*op).(type) {
				case *ssa.Global:
					out[x] = true
				case *ssa.Function:
					if e.Specs[FuncKey(x)] == nil {
						e.refGlobals(x, depth+1, seen, out)
					}
				}
			}
		}
	}
}

func (e *Engine) assumeGlobals(st *State) {
	c := e.C
	refs := map[*ssa.Global]bool{}
	if e.cur != nil && e.cur.fn != nil {
		e.refGlobals(e.cur.fn, 0, map[*ssa.Function]bool{}, refs)
	}
	var names []string
	for k := range e.NonNil {
		names = append(names, k)
	}
	sort.Strings(names)
	for _, k := range names {
		g := e.lookupGlobal(k)
		if g == nil {
			continue
		}
		if msg := e.frozenCheck(g); msg != "" {
			unsupported("global %s declared nonnil but %s", k, msg)
		}
		p := Ptr{e.globalRegion(g), c.Const(64, 0)}
		t := g.Type().Underlying().(*types.Pointer).Elem()
		switch t.Underlying().(type) {
		case *types.Interface:
			st.assume(c.Ne(c.loadCell(&st.heap, KIT, p, 0), c.Const(TypW, 0)))
		case *types.Pointer:
			st.assume(c.Ne(c.loadCell(&st.heap, KPR, p, 0), c.Const(RgnW, 0)))
		}
	}
	// global fact …: assumed content of write-once package variables
	for _, gf := range e.GlobalFacts {
		g := e.lookupGlobal(gf.Key)
		if g == nil || !refs[g] {
			continue
		}
		if msg := e.frozenCheck(g); msg != "" {
			unsupported("global %s has an assumed fact but %s", gf.Key, msg)
		}
		env := &specEnv{e: e, heap: &st.heap, old: &st.heap, vars: map[string]SVal{}, bound: map[string]*Term{}, rc: e.cur, ext: st.ext}
		env.pkg = g.Pkg.Pkg
		t, facts := e.clauseAssume(env, gf.Cl)
		e.flushWF(st)
		st.assume(t)
		st.facts = append(st.facts, facts...)
		e.noteAbstract("assumed content of package variable " + ShortKey(gf.Key) + ": " + gf.Cl.Text)
	}
	names = names[:0]
	for k := range e.Frozen {
		names = append(names, k)
	}
	sort.Strings(names)
	for _, k := range names {
		g := e.lookupGlobal(k)
		if g == nil {
			continue
		}
		if !refs[g] {
			continue
		}
		if msg := e.frozenCheck(g); msg != "" {
			unsupported("global %s declared frozen but %s", k, msg)
		}
		if e.frozenTable(g) == nil {
			e.assumeFrozenContents(st, g)
		}
	}
}

func (e *Engine) assumeGlobal(st *State, g *ssa.Global, v Value) {}

// frozenCheck verifies mechanically that no instruction outside the package initialiser stores to
// (or takes a non-load use of) the global. Result cached.
func (e *Engine) frozenCheck(g *ssa.Global) string {
	if e.frozenRes == nil {
		e.frozenRes = map[*ssa.Global]string{}
		tracked := map[*ssa.Global]bool{}
		for k := range e.NonNil {
			if gg := e.lookupGlobal(k); gg != nil {
				tracked[gg] = true
			}
		}
		for k := range e.Frozen {
			if gg := e.lookupGlobal(k); gg != nil {
				tracked[gg] = true
			}
		}
		for _, gf := range e.GlobalFacts {
			if gg := e.lookupGlobal(gf.Key); gg != nil {
				tracked[gg] = true
			}
		}
		for _, fn := range e.P.Funcs {
			e.scanFrozen(fn, tracked)
		}
		// anonymous functions / init
		for _, pk := range e.P.SSA.AllPackages() {
			if init := pk.Func("init"); init != nil {
				e.scanFrozen(init, tracked)
			}
		}
	}
	return e.frozenRes[g]
}

func (e *Engine) scanFrozen(fn *ssa.Function, tracked map[*ssa.Global]bool) {
	isInit := fn.Name() == "init" || strings.HasPrefix(fn.Name(), "init#")
	for _, b := range fn.Blocks {
		for _, in := range b.Instrs {
			ops := in.Operands(nil)
			for _, op := range ops {
				g, ok := (*op).(*ssa.Global)
				if !ok || !tracked[g] {
					continue
				}
				if isInit && fn.Pkg == g.Pkg {
					continue
				}
				okUse := false
				switch x := in.(type) {
				case *ssa.UnOp:
					okUse = true // load
				case *ssa.IndexAddr:
					// &g[i]: fine if only loaded from
					okUse = true
					if refs := x.Referrers(); refs != nil {
						for _, r := range *refs {
							if _, isLoad := r.(*ssa.UnOp); !isLoad {
								if _, isDbg := r.(*ssa.DebugRef); !isDbg {
									okUse = false
								}
							}
						}
					}
				case *ssa.DebugRef:
					okUse = true
				}
				if !okUse {
					e.frozenRes[g] = fmt.Sprintf("it is used by %T in %s", in, fn)
				}
			}
		}
	}
}

// assumeFrozenContents transfers the constant stores of the package initialiser into assumptions
// about the entry heap (arrays of integers only).
func (e *Engine) assumeFrozenContents(st *State, g *ssa.Global) {
	c := e.C
	at, ok := g.Type().Underlying().(*types.Pointer).Elem().Underlying().(*types.Array)
	if !ok {
		return
	}
	w, _, ok := intInfo(at.Elem())
	if !ok {
		return
	}
	vals := make([]uint64, at.Len())
	init := g.Pkg.Func("init")
	if init == nil {
		return
	}
	for _, b := range init.Blocks {
		for _, in := range b.Instrs {
			s, ok := in.(*ssa.Store)
			if !ok {
				continue
			}
			ia, ok := s.Addr.(*ssa.IndexAddr)
			if !ok || ia.X != g {
				continue
			}
			ic, ok1 := ia.Index.(*ssa.Const)
			vc, ok2 := s.Val.(*ssa.Const)
			if !ok1 || !ok2 {
				unsupported("frozen global %s has a non-constant initialiser store", g.Name())
			}
			vals[ic.Int64()] = uint64(vc.Int64())
		}
	}
	rg := e.globalRegion(g)
	es := sizeof(at.Elem())
	k := scalarKind(w)
	for i, v := range vals {
		cell := c.Select(c.Select(st.heap.K[k], rg), c.Const(64, uint64(int64(i)*es)))
		st.assume(c.Eq(cell, c.Const(w, v)))
	}
}

// verifyLemma proves a lemma: parameters arbitrary, requires assumed, ensures proved, over an
// arbitrary heap.
func (e *Engine) verifyLemma(key string, spec *FuncSpec) (res *FuncResult) {
	c := e.C
	res = &FuncResult{Key: key, Spec: spec}
	rc := &rootCtx{key: key, spec: spec, nameCnt: map[string]int{}, abstracted: map[string]bool{}, params: map[string]SVal{}}
	e.cur = rc
	e.setRgn(0)
	defer func() {
		res.Obligs = rc.obligs
		res.Paths = 1
		res.Returns = 1
		res.Trivial = rc.trivial
		if r := recover(); r != nil {
			if u, ok := r.(Unsupported); ok {
				res.Err = u.Msg
				return
			}
			if os.Getenv("DGV_PANIC") != "" {
				panic(r)
			}
			res.Err = fmt.Sprintf("engine panic: %v", r)
			if os.Getenv("DGV_STACK") != "" {
				res.Err += "\n" + string(debug.Stack())
			}
		}
	}()
	st := &State{heap: c.InitialHeap("0")}
	env := &specEnv{e: e, heap: &st.heap, old: &st.heap, vars: map[string]SVal{}, bound: map[string]*Term{}, rc: rc}
	if p, ok := e.P.All[spec.PkgPath]; ok {
		env.pkg = p.Types
	}
	for _, pp := range spec.LemmaParams {
		t := env.parseTypeString(pp.Type)
		var as []*Term
		v := c.Fresh(t, pp.Name, true, &as)
		for _, a := range as {
			st.assume(a)
		}
		env.vars[pp.Name] = SVal{V: v, T: t}
	}
	for _, rq := range spec.Requires {
		t, facts := e.clauseAssume(env, rq)
		st.assume(t)
		st.facts = append(st.facts, facts...)
	}
	rc.entry = st.clone()
	cov := &Oblig{ID: ShortKey(key) + "#cover:pre", Kind: "cover", Fn: key, Goal: c.False(), Cover: true, Props: spec.Props}
	cov.Assumps = append([]*Term(nil), st.pc...)
	rc.obligs = append(rc.obligs, cov)
	for i, en := range spec.Ensures {
		goal, facts := e.clauseGoal(env, en)
		s3 := st.clone()
		s3.facts = append(s3.facts, facts...)
		e.obligeNoAssume(s3, nil, "post", clauseName(en, i), goal)
	}
	return
}

// inputTerms lists the entry-state terms whose model values reconstruct the inputs of fn.
func (e *Engine) inputTerms(fn *ssa.Function, args []Value, h *Heap) []InputTerm {
	c := e.C
	var out []InputTerm
	var add func(name string, v Value, t types.Type, depth int)
	add = func(name string, v Value, t types.Type, depth int) {
		switch x := v.(type) {
		case Scalar:
			out = append(out, InputTerm{name, x.T})
		case Slice:
			out = append(out, InputTerm{name + ".len", x.Len}, InputTerm{name + ".cap", x.Cap})
			if st, ok := t.Underlying().(*types.Slice); ok && sizeof(st.Elem()) == 1 {
				for i := 0; i < 48; i++ {
					out = append(out, InputTerm{fmt.Sprintf("%s[%d]", name, i), c.loadCell(h, K8, x.P, int64(i))})
				}
			}
		case Str:
			out = append(out, InputTerm{name + ".len", x.Len})
			for i := 0; i < 48; i++ {
				out = append(out, InputTerm{fmt.Sprintf("%s[%d]", name, i), c.loadCell(h, K8, x.P, int64(i))})
			}
		case Ptr:
			out = append(out, InputTerm{name + ".nil", c.IsNil(x)})
			if pt, ok := t.Underlying().(*types.Pointer); ok && depth < 2 {
				if _, isStruct := pt.Elem().Underlying().(*types.Struct); isStruct {
					func() {
						defer func() { recover() }()
						add("(*"+name+")", c.Load(h, x, 0, pt.Elem()), pt.Elem(), depth+1)
					}()
				}
			}
		case Struct:
			if st, ok := t.Underlying().(*types.Struct); ok {
				for i, f := range x.F {
					add(name+"."+st.Field(i).Name(), f, st.Field(i).Type(), depth)
				}
			}
		case Iface:
			out = append(out, InputTerm{name + ".typ", x.Typ})
		}
	}
	for i, p := range fn.Params {
		n := p.Name()
		if n == "" {
			n = fmt.Sprintf("arg%d", i)
		}
		add(n, args[i], p.Type(), 0)
	}
	return out
}

// outputTerms lists the terms of the final state that the replay harness can observe.
func (e *Engine) outputTerms(fn *ssa.Function, rets []Value, h *Heap) []InputTerm {
	c := e.C
	var out []InputTerm
	rs := fn.Signature.Results()
	for i, v := range rets {
		name := fmt.Sprintf("r%d", i)
		switch x := v.(type) {
		case Scalar:
			out = append(out, InputTerm{name, x.T})
		case Slice:
			out = append(out, InputTerm{name + ".len", x.Len})
			if st, ok := rs.At(i).Type().Underlying().(*types.Slice); ok && sizeof(st.Elem()) == 1 {
				for j := 0; j < 64; j++ {
					out = append(out, InputTerm{fmt.Sprintf("%s[%d]", name, j), c.loadCell(h, K8, x.P, int64(j))})
				}
			}
		case Str:
			out = append(out, InputTerm{name + ".len", x.Len})
			for j := 0; j < 64; j++ {
				out = append(out, InputTerm{fmt.Sprintf("%s[%d]", name, j), c.loadCell(h, K8, x.P, int64(j))})
			}
		case Iface:
			out = append(out, InputTerm{name + ".nil", c.Eq(x.Typ, c.Const(TypW, 0))})
		}
	}
	return out
}
