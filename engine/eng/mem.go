package eng

import (
	"fmt"
	"go/types"
)

// Memory model (DESIGN §3.3): one nested SMT array per primitive cell kind,
// Rgn(BV32) -> (Off(BV64) -> cell). Byte offsets; gc/amd64 layout.

const (
	K8 = iota
	K16
	K32
	K64
	KPR // pointer cell: region part
	KPO // pointer cell: offset part
	KIT // interface cell: dynamic type id
	NKinds
)

var kindName = [NKinds]string{"H8", "H16", "H32", "H64", "HPr", "HPo", "HIt"}
var kindWidth = [NKinds]int{8, 16, 32, 64, RgnW, 64, TypW}

func innerSort(k int) *Sort { return ArrSort(BV(64), BV(kindWidth[k])) }
func heapSort(k int) *Sort  { return ArrSort(BV(RgnW), innerSort(k)) }

type Heap struct {
	K [NKinds]*Term
}

func (c *Ctx) InitialHeap(tag string) Heap {
	var h Heap
	for k := 0; k < NKinds; k++ {
		v := c.FreshVar(kindName[k]+tag, heapSort(k))
		if k == KPR {
			// pointers found in the initial heap point to pre-existing (low) regions
			v = c.FreshLowVar(kindName[k]+tag, heapSort(k))
		}
		h.K[k] = v
	}
	return h
}

func (c *Ctx) loadCell(h *Heap, k int, p Ptr, off int64) *Term {
	return c.Select(c.Select(h.K[k], p.R), c.Add(p.O, c.Const(64, uint64(off))))
}
func (c *Ctx) storeCell(h *Heap, k int, p Ptr, off int64, v *Term) {
	inner := c.Select(h.K[k], p.R)
	h.K[k] = c.Store(h.K[k], p.R, c.Store(inner, c.Add(p.O, c.Const(64, uint64(off))), v))
}

func scalarKind(w int) int {
	switch w {
	case 8:
		return K8
	case 16:
		return K16
	case 32:
		return K32
	}
	return K64
}

type Unsupported struct{ Msg string }

func (u Unsupported) Error() string { return u.Msg }
func unsupported(f string, a ...interface{}) {
	panic(Unsupported{fmt.Sprintf(f, a...)})
}

func (c *Ctx) loadPtr(h *Heap, p Ptr, off int64) Ptr {
	return Ptr{c.loadCell(h, KPR, p, off), c.loadCell(h, KPO, p, off)}
}
func (c *Ctx) storePtr(h *Heap, p Ptr, off int64, v Ptr) {
	c.storeCell(h, KPR, p, off, v.R)
	c.storeCell(h, KPO, p, off, v.O)
}

// Load reads a value of Go type t at p+off.
func (c *Ctx) Load(h *Heap, p Ptr, off int64, t types.Type) Value {
	switch u := t.Underlying().(type) {
	case *types.Basic:
		switch {
		case u.Info()&types.IsBoolean != 0:
			return Scalar{T: c.Ne(c.loadCell(h, K8, p, off), c.Const(8, 0))}
		case u.Info()&types.IsString != 0:
			return Str{c.loadPtr(h, p, off), c.loadCell(h, K64, p, off+8)}
		case u.Kind() == types.UnsafePointer:
			return c.loadPtr(h, p, off)
		}
		w, _, ok := intInfo(t)
		if !ok {
			unsupported("load of basic type %s", t)
		}
		return Scalar{T: c.loadCell(h, scalarKind(w), p, off)}
	case *types.Pointer, *types.Map, *types.Chan:
		return c.loadPtr(h, p, off)
	case *types.Signature:
		return FuncV{P: c.loadPtr(h, p, off)}
	case *types.Slice:
		return Slice{c.loadPtr(h, p, off), c.loadCell(h, K64, p, off+8), c.loadCell(h, K64, p, off+16)}
	case *types.Interface:
		return Iface{c.loadCell(h, KIT, p, off), c.loadPtr(h, p, off+8)}
	case *types.Struct:
		s := Struct{}
		offs := structOffsets(u)
		for i := 0; i < u.NumFields(); i++ {
			s.F = append(s.F, c.Load(h, p, off+offs[i], u.Field(i).Type()))
		}
		return s
	case *types.Array:
		if u.Len() > 64 {
			unsupported("load of large array value %s", t)
		}
		a := Arr{}
		es := sizeof(u.Elem())
		for i := int64(0); i < u.Len(); i++ {
			a.E = append(a.E, c.Load(h, p, off+i*es, u.Elem()))
		}
		return a
	}
	unsupported("load of type %s", t)
	return nil
}

func structOffsets(u *types.Struct) []int64 {
	fs := make([]*types.Var, u.NumFields())
	for i := range fs {
		fs[i] = u.Field(i)
	}
	return sizes.Offsetsof(fs)
}

// Store writes v (of Go type t) at p+off.
func (c *Ctx) Store_(h *Heap, p Ptr, off int64, t types.Type, v Value) {
	switch u := t.Underlying().(type) {
	case *types.Basic:
		switch {
		case u.Info()&types.IsBoolean != 0:
			c.storeCell(h, K8, p, off, c.Ite(v.(Scalar).T, c.Const(8, 1), c.Const(8, 0)))
			return
		case u.Info()&types.IsString != 0:
			s := v.(Str)
			c.storePtr(h, p, off, s.P)
			c.storeCell(h, K64, p, off+8, s.Len)
			return
		case u.Kind() == types.UnsafePointer:
			c.storePtr(h, p, off, toPtr(v))
			return
		}
		w, _, ok := intInfo(t)
		if !ok {
			unsupported("store of basic type %s", t)
		}
		sc := v.(Scalar)
		c.storeCell(h, scalarKind(w), p, off, sc.T)
		return
	case *types.Pointer, *types.Map, *types.Chan:
		c.storePtr(h, p, off, toPtr(v))
		return
	case *types.Signature:
		c.storePtr(h, p, off, toPtr(v))
		return
	case *types.Slice:
		s := v.(Slice)
		c.storePtr(h, p, off, s.P)
		c.storeCell(h, K64, p, off+8, s.Len)
		c.storeCell(h, K64, p, off+16, s.Cap)
		return
	case *types.Interface:
		i := v.(Iface)
		c.storeCell(h, KIT, p, off, i.Typ)
		c.storePtr(h, p, off+8, i.P)
		return
	case *types.Struct:
		s := v.(Struct)
		offs := structOffsets(u)
		for i := 0; i < u.NumFields(); i++ {
			c.Store_(h, p, off+offs[i], u.Field(i).Type(), s.F[i])
		}
		return
	case *types.Array:
		a := v.(Arr)
		es := sizeof(u.Elem())
		for i := int64(0); i < int64(len(a.E)); i++ {
			c.Store_(h, p, off+i*es, u.Elem(), a.E[i])
		}
		return
	}
	unsupported("store of type %s", t)
}

func toPtr(v Value) Ptr {
	switch x := v.(type) {
	case Ptr:
		return x
	case FuncV:
		return x.P
	}
	panic(fmt.Sprintf("toPtr: %T", v))
}

// kindsOf returns the set of cell kinds occurring in the layout of t.
func kindsOf(t types.Type, set *[NKinds]bool) {
	switch u := t.Underlying().(type) {
	case *types.Basic:
		switch {
		case u.Info()&types.IsBoolean != 0:
			set[K8] = true
		case u.Info()&types.IsString != 0:
			set[KPR], set[KPO], set[K64] = true, true, true
		case u.Kind() == types.UnsafePointer:
			set[KPR], set[KPO] = true, true
		default:
			w, _, _ := intInfo(t)
			set[scalarKind(w)] = true
		}
	case *types.Pointer, *types.Map, *types.Chan, *types.Signature:
		set[KPR], set[KPO] = true, true
	case *types.Slice:
		set[KPR], set[KPO], set[K64] = true, true, true
	case *types.Interface:
		set[KIT], set[KPR], set[KPO] = true, true, true
	case *types.Struct:
		for i := 0; i < u.NumFields(); i++ {
			kindsOf(u.Field(i).Type(), set)
		}
	case *types.Array:
		kindsOf(u.Elem(), set)
	}
}

// ---------------------------------------------------------------------------------------------
// Quantified facts: forall Bound. Body — kept outside the path condition and instantiated by the
// generator at the array reads that occur in a query (DESIGN §5.2, generator-side E-matching).

type QFact struct {
	Bound *Term // a BV64 variable
	Body  *Term
	// Triggers: select(Arr, Base + Bound). Bound := idx - Base for every ground select(Arr, idx).
	Trig []Trigger
}
type Trigger struct {
	Arr  *Term
	Base *Term  // may be nil (index is Bound itself)
	Coef uint64 // index = Base + Coef*Bound (0 or 1: plain)
}

// zeroRegion initialises all kinds of region r to zero cells for the kinds of t.
func (c *Ctx) zeroRegion(h *Heap, r *Term, t types.Type) {
	var ks [NKinds]bool
	kindsOf(t, &ks)
	for k := 0; k < NKinds; k++ {
		if ks[k] {
			h.K[k] = c.Store(h.K[k], r, c.ConstArr(innerSort(k), c.Const(kindWidth[k], 0)))
		}
	}
}

// copyRange models memmove(dst, src, n bytes) over the kinds of elemT. Returns the facts describing the
// new inner arrays of the destination region.
func (c *Ctx) copyRange(h *Heap, dst, src Ptr, nbytes *Term, elemT types.Type, srcHeap *Heap) []*QFact {
	var ks [NKinds]bool
	kindsOf(elemT, &ks)
	var facts []*QFact
	for k := 0; k < NKinds; k++ {
		if !ks[k] {
			continue
		}
		oldInner := c.Select(h.K[k], dst.R)
		srcInner := c.Select(srcHeap.K[k], src.R)
		newInner := c.FreshVar(fmt.Sprintf("cp%s", kindName[k]), innerSort(k))
		j := c.FreshVar("j", BV(64))
		inr := c.Ult(c.Sub(j, dst.O), nbytes) // j in [dst, dst+n), wrap-safe single comparison
		body := c.Eq(c.mkSelectRaw(newInner, j),
			c.Ite(inr, c.Select(srcInner, c.Add(src.O, c.Sub(j, dst.O))), c.Select(oldInner, j)))
		facts = append(facts, &QFact{Bound: j, Body: body, Trig: []Trigger{{Arr: newInner, Coef: 1}}})
		h.K[k] = c.Store(h.K[k], dst.R, newInner)
	}
	return facts
}

// mkSelectRaw builds select without simplification through ite (array var is a leaf anyway).
func (c *Ctx) mkSelectRaw(a, i *Term) *Term { return c.Select(a, i) }

// havocRange replaces the cells of region r in [lo, hi) (byte offsets) for the kinds of elemT by
// unknown contents, keeping everything else (frame fact).
func (c *Ctx) havocRange(h *Heap, r *Term, lo, hi *Term, elemT types.Type, cond *Term) []*QFact {
	var ks [NKinds]bool
	kindsOf(elemT, &ks)
	var facts []*QFact
	for k := 0; k < NKinds; k++ {
		if !ks[k] {
			continue
		}
		oldInner := c.Select(h.K[k], r)
		newInner := c.FreshVar(fmt.Sprintf("hv%s", kindName[k]), innerSort(k))
		j := c.FreshVar("j", BV(64))
		inr := c.Ult(c.Sub(j, lo), c.Sub(hi, lo))
		if cond != nil {
			inr = c.And(cond, inr)
		}
		body := c.Or(inr, c.Eq(c.Select(newInner, j), c.Select(oldInner, j)))
		facts = append(facts, &QFact{Bound: j, Body: body, Trig: []Trigger{{Arr: newInner, Coef: 1}}})
		h.K[k] = c.Store(h.K[k], r, newInner)
	}
	return facts
}

// havocRegion forgets the contents of region r for all kinds.
func (c *Ctx) havocRegion(h *Heap, r *Term) {
	for k := 0; k < NKinds; k++ {
		h.K[k] = c.Store(h.K[k], r, c.FreshVar("hr"+kindName[k], innerSort(k)))
	}
}

// havocAll forgets the whole heap.
func (c *Ctx) havocAll(h *Heap) {
	for k := 0; k < NKinds; k++ {
		h.K[k] = c.FreshVar("hall"+kindName[k], heapSort(k))
	}
}
