package eng

import (
	"fmt"
	"go/ast"
	"go/constant"
	"go/token"
	"go/types"
	"hash/fnv"
	"os"
	"sort"
	"strings"
	"time"

	"golang.org/x/tools/go/ssa"
)

// ---------------------------------------------------------------------------------------------
// Engine, state, frames, obligations

type Engine struct {
	P     *Program
	C     *Ctx
	Specs map[string]*FuncSpec
	Pures map[string]*PureFn
	Recs  map[string]*PureFn

	typeIDs     map[string]uint32
	typeByID    map[uint32]types.Type
	globals     map[*ssa.Global]uint32
	funcIDs     map[*ssa.Function]uint64
	funcByID    map[uint64]*ssa.Function
	nextRgn     uint32
	strRegions  map[string]uint32
	strByRegion map[uint32]string
	quants      map[*Term]*quantMark
	frozenRes   map[*ssa.Global]string
	pureMemo    map[*ssa.Function]bool
	pendingWF   []*Term
	pendingExt  []extent
	pendingVals []pendingVal
	curExt      []extent
	recApps     map[*Term]*recInfo
	recDefs     map[*Term]*Term
	recFns      map[string]*PureFn
	frozenTabs  map[*ssa.Global]*frozenTab
	frozenMaps  map[*ssa.Global]*frozenTab
	retFrame    *frame
	retBlock    *ssa.BasicBlock
	Fuel        int
	Tier        string
	keepingCall bool
	tiAssume    bool // type invariants are being assumed (window() records extents) rather than proved
	TypeInvs    []*TypeInv
	NonNil      map[string]bool
	Frozen      map[string]bool
	GlobalFacts []*GlobalFact
	MaxPaths    int
	InlineMax   int
	ModelTerms  func(o *Oblig) []*Term
	Replayer    func(o *Oblig) (map[string]interface{}, bool, string)
	SpecSource  map[string]string
	SpecFiles   []string

	// per root verification
	cur *rootCtx
}

type rootCtx struct {
	fn              *ssa.Function
	key             string
	spec            *FuncSpec
	entry           *State // entry state (heap = old)
	params          map[string]SVal
	obligs          []*Oblig
	nameCnt         map[string]int
	paths           int
	returns         int
	abstracted      map[string]bool
	trivial         int
	retCover        []*Oblig
	err             error
	modRanges       []modRange
	variant         *Term
	used            map[string]bool
	deadline        time.Time
	skippedThorough map[string]bool
	keepRegions     []*Term
	keepTargets     []Slice // pointer arrays whose pointees are assumed unchanged by calls through function parameters
	inputs          []InputTerm
	outputs         []InputTerm
	frozenAssumed   map[*ssa.Global]bool
}

type State struct {
	heap  Heap
	pc    []*Term
	facts []*QFact
	path  []string
	ext   []extent // memory known to be valid (slices/strings seen, allocations): for `mem` obligations
	calls *Term    // ghost: number of calls made so far through function-typed parameters of the root
}

// extent: bytes [Lo, Hi) of region R are valid memory.
type extent struct {
	R, Lo, Hi *Term
	Cond      *Term // nil: unconditional
}

func (s *State) clone() *State {
	n := &State{heap: s.heap}
	n.pc = append([]*Term(nil), s.pc...)
	n.facts = append([]*QFact(nil), s.facts...)
	n.path = append([]string(nil), s.path...)
	n.ext = append([]extent(nil), s.ext...)
	n.calls = s.calls
	return n
}

func (s *State) assume(t *Term) {
	if t.IsTrue() {
		return
	}
	if t.Op == OAnd {
		// conjuncts are kept separately: unit propagation and the interval prover work on literals
		for _, a := range t.Args {
			s.assume(a)
		}
		return
	}
	s.pc = append(s.pc, t)
}

// decided: the truth value of cond follows syntactically from the path condition — it (or its negation) is one
// of the assumed literals, or is forced by a two-literal clause whose other literal is refuted by one.
func (s *State) decided(c *Ctx, cond *Term) (bool, bool) {
	neg := c.Not(cond)
	lits := make(map[*Term]bool, len(s.pc))
	for _, a := range s.pc {
		lits[a] = true
	}
	if lits[cond] {
		return true, true
	}
	if lits[neg] {
		return false, true
	}
	// x == k1 is known and the branch asks x == k2
	if cond.Op == OEq {
		x, k := cond.Args[0], cond.Args[1]
		if x.IsConst() {
			x, k = k, x
		}
		if k.IsConst() && !x.IsConst() {
			for _, a := range s.pc {
				if a.Op != OEq {
					continue
				}
				y, k2 := a.Args[0], a.Args[1]
				if y.IsConst() {
					y, k2 = k2, y
				}
				if y == x && k2.IsConst() && k2.Val != k.Val {
					return false, true
				}
			}
		}
	}
	for _, a := range s.pc {
		if a.Op != OOr || len(a.Args) != 2 {
			continue
		}
		for i := 0; i < 2; i++ {
			x, y := a.Args[i], a.Args[1-i]
			if !lits[c.Not(y)] {
				continue
			}
			// y is refuted, so x holds
			if x == cond {
				return true, true
			}
			if x == neg {
				return false, true
			}
		}
	}
	return false, false
}

type frame struct {
	fn    *ssa.Function
	regs  map[ssa.Value]Value
	depth int
	inl   string // "" for the root function, else "inl(<callee>)"
	loops map[*ssa.BasicBlock]*loopInfo
	cuts  map[*ssa.BasicBlock]*loopCut
	dry   *dryRun
	raw   map[ssa.Value]bool // pointers derived from unsafe arithmetic / loaded unsafe.Pointer
}

func (f *frame) clone() *frame {
	n := *f
	n.regs = make(map[ssa.Value]Value, len(f.regs))
	for k, v := range f.regs {
		n.regs[k] = v
	}
	n.cuts = make(map[*ssa.BasicBlock]*loopCut, len(f.cuts))
	for k, v := range f.cuts {
		n.cuts[k] = v
	}
	return &n
}

type Oblig struct {
	ID      string
	Kind    string
	Fn      string
	Props   []string
	Assumps []*Term
	Facts   []*QFact
	Goal    *Term
	Pos     string
	Detail  string
	Path    string
	Cover   bool // satisfiability check (expect sat)
	// result
	Verdict    string // unsat | sat | unknown | trivial
	Solver     string
	Secs       float64
	Model      map[string]string
	SMTFile    string
	Output     string
	modelTerms []*Term
	Replayed   bool
	Inputs     []InputTerm
	Outputs    []InputTerm
}

// InputTerm names a term of the entry state whose model value is an input of the root function.
type InputTerm struct {
	Name string // e.g. "b.len", "b[3]", "v"
	T    *Term
}

func NewEngine(p *Program) *Engine {
	return &Engine{P: p, C: NewCtx(), Specs: map[string]*FuncSpec{}, Pures: map[string]*PureFn{}, Recs: map[string]*PureFn{},
		typeIDs: map[string]uint32{}, typeByID: map[uint32]types.Type{}, globals: map[*ssa.Global]uint32{},
		funcIDs: map[*ssa.Function]uint64{}, funcByID: map[uint64]*ssa.Function{}, MaxPaths: 1500, InlineMax: 6,
		strRegions: map[string]uint32{}, strByRegion: map[uint32]string{}, quants: map[*Term]*quantMark{},
		NonNil: map[string]bool{}, Frozen: map[string]bool{}}
}

func (e *Engine) newRegion() *Term {
	e.nextRgn++
	e.C.Epoch = e.nextRgn
	return e.C.Const(RgnW, uint64(FreshBase+e.nextRgn))
}

func (e *Engine) setRgn(n uint32) {
	e.nextRgn = n
	e.C.Epoch = n
}

func (e *Engine) typeID(t types.Type) uint32 {
	k := types.TypeString(t, nil)
	if id, ok := e.typeIDs[k]; ok {
		return id
	}
	id := uint32(len(e.typeIDs) + 1)
	e.typeIDs[k] = id
	e.typeByID[id] = t
	return id
}

func (e *Engine) globalRegion(g *ssa.Global) *Term {
	id, ok := e.globals[g]
	if !ok {
		id = uint32(0x1000 + len(e.globals))
		e.globals[g] = id
	}
	return e.C.Const(RgnW, uint64(id))
}

const funcRegion = 2

func (e *Engine) funcPtr(fn *ssa.Function) Ptr {
	id, ok := e.funcIDs[fn]
	if !ok {
		id = uint64(len(e.funcIDs)+1) * 16
		e.funcIDs[fn] = id
		e.funcByID[id] = fn
	}
	return Ptr{e.C.Const(RgnW, funcRegion), e.C.Const(64, id)}
}

// ---------------------------------------------------------------------------------------------
// Obligation emission

func (e *Engine) obligID(fr *frame, kind, detail string) string {
	rc := e.cur
	id := ShortKey(rc.key) + "#" + kind
	d := detail
	if fr != nil && fr.inl != "" {
		d = fr.inl + ":" + d
	}
	if len(d) > 72 {
		h := fnv.New32a()
		h.Write([]byte(d))
		d = d[:60] + fmt.Sprintf("~%06x", h.Sum32()&0xffffff)
	}
	if d != "" {
		id += ":" + d
	}
	return id
}

type pendingVal struct {
	v Value
	t types.Type
}

func (e *Engine) flushWF(st *State) {
	for _, t := range e.pendingWF {
		st.assume(t)
	}
	e.pendingWF = e.pendingWF[:0]
	st.ext = append(st.ext, e.pendingExt...)
	e.pendingExt = e.pendingExt[:0]
	for _, pv := range e.pendingVals {
		e.addExtents(st, pv.v, pv.t)
	}
	e.pendingVals = e.pendingVals[:0]
}

func (e *Engine) oblige(st *State, fr *frame, kind, detail string, goal *Term, pos token.Pos) {
	e.flushWF(st)
	if fr != nil && fr.dry != nil {
		st.assume(goal)
		return
	}
	rc := e.cur
	if goal.IsTrue() {
		rc.trivial++
		return
	}
	id := e.obligID(fr, kind, detail)
	o := &Oblig{ID: id, Kind: kind, Fn: rc.key, Goal: goal, Detail: detail, Pos: e.P.Position(pos),
		Path: strings.Join(st.path, ";")}
	o.Assumps = append([]*Term(nil), st.pc...)
	o.Facts = append([]*QFact(nil), st.facts...)
	if rc.spec != nil {
		o.Props = rc.spec.Props
	}
	o.Inputs = rc.inputs
	o.Outputs = rc.outputs
	rc.obligs = append(rc.obligs, o)
	// the continuing path runs under the assumption that the check passed
	st.assume(goal)
}

// ---------------------------------------------------------------------------------------------
// Function execution (DFS over paths, continuation style)

type cont func(st *State, rets []Value)

func (e *Engine) get(fr *frame, v ssa.Value) Value {
	switch x := v.(type) {
	case *ssa.Const:
		return e.constVal(x)
	case *ssa.Global:
		return Ptr{e.globalRegion(x), e.C.Const(64, 0)}
	case *ssa.Function:
		return FuncV{Fn: x, P: e.funcPtr(x)}
	case *ssa.Builtin:
		unsupported("builtin %s as value", x.Name())
	}
	r, ok := fr.regs[v]
	if !ok {
		unsupported("use of undefined SSA value %s (%T) in %s", v.Name(), v, fr.fn)
	}
	return r
}

func (e *Engine) constVal(k *ssa.Const) Value {
	c := e.C
	t := k.Type()
	if k.Value == nil {
		return c.Zero(t)
	}
	switch u := t.Underlying().(type) {
	case *types.Basic:
		switch {
		case u.Info()&types.IsBoolean != 0:
			return Scalar{T: c.Bool(constant.BoolVal(k.Value))}
		case u.Info()&types.IsString != 0:
			return e.stringConst(constant.StringVal(k.Value))
		case u.Info()&types.IsFloat != 0:
			f, _ := constant.Float64Val(k.Value)
			if u.Kind() == types.Float32 {
				return Scalar{T: c.Const(32, uint64(f32bits(float32(f))))}
			}
			return Scalar{T: c.Const(64, f64bits(f))}
		case u.Info()&types.IsInteger != 0:
			w, _, _ := intInfo(t)
			if i, ok := constant.Int64Val(k.Value); ok {
				return Scalar{T: c.Const(w, uint64(i))}
			}
			if ui, ok := constant.Uint64Val(k.Value); ok {
				return Scalar{T: c.Const(w, ui)}
			}
		}
	}
	unsupported("constant %s of type %s", k, t)
	return nil
}

// string constants live in fixed concrete regions whose bytes are known.
func (e *Engine) stringConst(s string) Value {
	c := e.C
	if len(s) == 0 {
		return Str{c.NilPtr(), c.Const(64, 0)}
	}
	id, ok := e.strRegions[s]
	if !ok {
		id = uint32(0x10000 + len(e.strRegions))
		e.strRegions[s] = id
		e.strByRegion[id] = s
	}
	return Str{Ptr{c.Const(RgnW, uint64(id)), c.Const(64, 0)}, c.Const(64, uint64(len(s)))}
}

// runFunc executes fn's body from a state, calling k at every Return.
func (e *Engine) runFunc(fn *ssa.Function, args []Value, st *State, parent *frame, inl string, k cont) {
	if len(fn.Blocks) == 0 {
		unsupported("function %s has no body", fn)
	}
	fr := &frame{fn: fn, regs: map[ssa.Value]Value{}, inl: inl, cuts: map[*ssa.BasicBlock]*loopCut{}}
	if parent != nil {
		fr.depth = parent.depth + 1
		fr.dry = parent.dry
	}
	fr.loops = findLoops(fn)
	fr.raw = rawPointers(fn)
	for i, p := range fn.Params {
		fr.regs[p] = args[i]
	}
	e.runBlock(fr, fn.Blocks[0], nil, st, k)
}

func (e *Engine) runBlock(fr *frame, b *ssa.BasicBlock, pred *ssa.BasicBlock, st *State, k cont) {
	// a dry run (mod-set discovery) only explores the loop body: stop where the path leaves the loop
	if d := fr.dry; d != nil && d.li != nil && fr.depth == d.depth && b.Parent() == d.li.head.Parent() && b != d.li.head && !d.li.body[b] {
		return
	}
	// loop handling
	if li := fr.loops[b]; li != nil {
		if pred != nil && li.body[pred] && fr.cuts[b] != nil {
			e.loopBackEdge(fr, li, pred, st)
			return
		}
		if fr.cuts[b] == nil || !li.body[predOrNil(pred)] {
			e.loopEnter(fr, li, pred, st, k)
			return
		}
	}
	e.runBlockBody(fr, b, pred, st, k)
}

func predOrNil(b *ssa.BasicBlock) *ssa.BasicBlock { return b }

func (e *Engine) runBlockBody(fr *frame, b *ssa.BasicBlock, pred *ssa.BasicBlock, st *State, k cont) {
	// phis first (simultaneous assignment)
	idx := 0
	if pred != nil {
		pi := -1
		for i, p := range b.Preds {
			if p == pred {
				pi = i
				break
			}
		}
		var vals []Value
		var phis []*ssa.Phi
		for _, in := range b.Instrs {
			ph, ok := in.(*ssa.Phi)
			if !ok {
				break
			}
			phis = append(phis, ph)
			vals = append(vals, e.get(fr, ph.Edges[pi]))
			idx++
		}
		for i, ph := range phis {
			fr.regs[ph] = vals[i]
		}
	}
	e.runFrom(fr, b, idx, st, k)
}

var forkHist = func() map[string]int {
	if os.Getenv("DGV_PATHDBG") != "" {
		return map[string]int{}
	}
	return nil
}()

func (e *Engine) countPath() {
	e.cur.paths++
	limit := e.MaxPaths
	if e.cur.spec != nil && e.cur.spec.MaxPaths > limit {
		limit = e.cur.spec.MaxPaths
	}
	if e.cur.paths > limit {
		if os.Getenv("DGV_PATHDBG") != "" {
			type kv struct {
				k string
				n int
			}
			var l []kv
			for k, n := range forkHist {
				l = append(l, kv{k, n})
			}
			sort.Slice(l, func(i, j int) bool { return l[i].n > l[j].n })
			for i := 0; i < len(l) && i < 25; i++ {
				fmt.Fprintf(os.Stderr, "FORK %6d %s\n", l[i].n, l[i].k)
			}
		}
		unsupported("path limit %d exceeded", limit)
	}
	if e.cur.paths%16 == 0 && !e.cur.deadline.IsZero() && time.Now().After(e.cur.deadline) {
		unsupported("per-function time budget exceeded (%d paths so far)", e.cur.paths)
	}
}

func (e *Engine) runFrom(fr *frame, b *ssa.BasicBlock, idx int, st *State, k cont) {
	c := e.C
	for i := idx; i < len(b.Instrs); i++ {
		in := b.Instrs[i]
		switch x := in.(type) {
		case *ssa.DebugRef:
			continue
		case *ssa.If:
			cond := e.get(fr, x.Cond).(Scalar).T
			if cond.IsTrue() {
				e.runBlock(fr, b.Succs[0], b, st, k)
				return
			}
			if cond.IsFalse() {
				e.runBlock(fr, b.Succs[1], b, st, k)
				return
			}
			// a branch whose condition (or its negation) is literally among the path facts is not a fork
			if v, known := st.decided(c, cond); known {
				if v {
					e.runBlock(fr, b.Succs[0], b, st, k)
				} else {
					e.runBlock(fr, b.Succs[1], b, st, k)
				}
				return
			}
			e.countPath()
			st2 := st.clone()
			fr2 := fr.clone()
			txt := e.P.ExprText(x.Cond.Pos(), func(n ast.Node) bool { _, ok := n.(ast.Expr); return ok })
			if forkHist != nil {
				forkHist[fr.fn.Name()+": "+txt]++
			}
			st.assume(cond)
			st.path = append(st.path, txt+"=T")
			e.runBlock(fr, b.Succs[0], b, st, k)
			st2.assume(c.Not(cond))
			st2.path = append(st2.path, txt+"=F")
			e.runBlock(fr2, b.Succs[1], b, st2, k)
			return
		case *ssa.Jump:
			e.runBlock(fr, b.Succs[0], b, st, k)
			return
		case *ssa.Return:
			var rets []Value
			for _, r := range x.Results {
				rets = append(rets, e.get(fr, r))
			}
			if fr.inl == "" && fr.dry == nil {
				// postconditions may mention the function's named locals as they are at this return
				e.retFrame, e.retBlock = fr, b
			}
			k(st, rets)
			return
		case *ssa.Panic:
			txt := e.P.ExprText(x.Pos(), func(n ast.Node) bool { _, ok := n.(*ast.CallExpr); return ok })
			e.oblige(st, fr, "panic", txt, c.False(), x.Pos())
			return
		case *ssa.RunDefers:
			continue
		case *ssa.Call:
			// continuation: bind result, continue with the rest of the block
			e.doCall(fr, x, st, func(st2 *State, res Value) {
				f2 := fr.clone()
				if res != nil {
					f2.regs[x] = res
				}
				e.runFrom(f2, b, i+1, st2, k)
			})
			return
		case *ssa.Go, *ssa.Defer, *ssa.Select, *ssa.Send:
			unsupported("%T in %s", in, fr.fn)
		default:
			forks := e.step(fr, in, st)
			if forks != nil {
				// instruction forked the path (append): each fork continues separately
				for j, fk := range forks {
					f2 := fr
					if j < len(forks)-1 {
						f2 = fr.clone()
					}
					if fk.val != nil {
						f2.regs[in.(ssa.Value)] = fk.val
					}
					e.runFrom(f2, b, i+1, fk.st, k)
				}
				return
			}
		}
	}
}

type fork struct {
	st  *State
	val Value
}

// step executes a non-control instruction. Returns forks when the instruction splits the path.
func (e *Engine) step(fr *frame, in ssa.Instruction, st *State) []fork {
	c := e.C
	switch x := in.(type) {
	case *ssa.Alloc:
		r := e.newRegion()
		t := x.Type().Underlying().(*types.Pointer).Elem()
		c.zeroRegion(&st.heap, r, t)
		st.ext = append(st.ext, extent{R: r, Lo: c.Const(64, 0), Hi: c.Const(64, uint64(sizeof(t)))})
		fr.regs[x] = Ptr{r, c.Const(64, 0)}
	case *ssa.BinOp:
		fr.regs[x] = e.binop(fr, st, x)
	case *ssa.UnOp:
		fr.regs[x] = e.unop(fr, st, x)
	case *ssa.Store:
		p := toPtr(e.get(fr, x.Addr))
		e.checkDeref(fr, st, p, x.Addr, x.Pos(), true, x.Val.Type())
		if fr.raw[x.Addr] {
			e.memOblig(fr, st, p, sizeof(x.Val.Type()), "store:"+e.exprAt(x.Pos()), x.Pos())
		}
		v := e.get(fr, x.Val)
		if sc, ok := v.(Scalar); ok && sc.R != nil {
			// uintptr with provenance stored to memory: provenance is dropped
			v = Scalar{T: sc.T}
		}
		e.frameOblig(fr, st, p, c.Const(64, uint64(sizeof(x.Val.Type()))), "store:"+e.exprAt(x.Pos()), x.Pos())
		c.Store_(&st.heap, p, 0, x.Val.Type(), v)
		if fr.dry != nil {
			fr.dry.noteStore(c, p, x.Val.Type())
		}
	case *ssa.FieldAddr:
		p := toPtr(e.get(fr, x.X))
		st0 := x.X.Type().Underlying().(*types.Pointer).Elem().Underlying().(*types.Struct)
		off := structOffsets(st0)[x.Field]
		e.nilCheck(fr, st, p, x.X, x.Pos())
		fr.regs[x] = Ptr{p.R, c.Add(p.O, c.Const(64, uint64(off)))}
	case *ssa.Field:
		fr.regs[x] = e.get(fr, x.X).(Struct).F[x.Field]
	case *ssa.IndexAddr:
		fr.regs[x] = e.indexAddr(fr, st, x)
	case *ssa.Index:
		fr.regs[x] = e.index(fr, st, x)
	case *ssa.Lookup:
		fr.regs[x] = e.lookup(fr, st, x)
	case *ssa.Slice:
		fr.regs[x] = e.slice(fr, st, x)
	case *ssa.Convert:
		fr.regs[x] = e.convert(fr, st, x)
	case *ssa.ChangeType:
		fr.regs[x] = e.get(fr, x.X)
	case *ssa.ChangeInterface:
		fr.regs[x] = e.get(fr, x.X)
	case *ssa.MakeInterface:
		fr.regs[x] = e.makeInterface(st, e.get(fr, x.X), x.X.Type())
	case *ssa.TypeAssert:
		fr.regs[x] = e.typeAssert(fr, st, x)
	case *ssa.Extract:
		fr.regs[x] = e.get(fr, x.Tuple).(Tuple).E[x.Index]
	case *ssa.Phi:
		// only reached for entry-less blocks (should not happen)
		unsupported("phi outside block head")
	case *ssa.MakeSlice:
		fr.regs[x] = e.makeSlice(fr, st, x)
	case *ssa.MakeClosure:
		fv := FuncV{Fn: x.Fn.(*ssa.Function)}
		for _, b := range x.Bindings {
			fv.Bind = append(fv.Bind, e.get(fr, b))
		}
		fv.P = Ptr{e.newRegion(), c.Const(64, 0)}
		fr.regs[x] = fv
	case *ssa.MakeMap:
		fr.regs[x] = Ptr{e.newRegion(), c.Const(64, 0)}
		e.noteAbstract("map")
	case *ssa.MapUpdate:
		m := toPtr(e.get(fr, x.Map))
		e.oblige(st, fr, "nil", "mapassign:"+e.exprAt(x.Pos()), c.Not(c.IsNil(m)), x.Pos())
		e.noteAbstract("map")
	case *ssa.Range:
		// iterator handle: keep the collection value
		fr.regs[x] = e.get(fr, x.X)
		e.noteAbstract("range")
	case *ssa.Next:
		fr.regs[x] = e.next(fr, st, x)
	case *ssa.SliceToArrayPointer:
		s := e.get(fr, x.X).(Slice)
		n := x.Type().Underlying().(*types.Pointer).Elem().Underlying().(*types.Array).Len()
		e.oblige(st, fr, "slc", "toarray:"+e.exprAt(x.Pos()), c.Sle(c.Const(64, uint64(n)), s.Len), x.Pos())
		fr.regs[x] = s.P
	case *ssa.MultiConvert:
		unsupported("MultiConvert")
	default:
		unsupported("instruction %T (%s)", in, in)
	}
	return nil
}

func (e *Engine) noteAbstract(what string) {
	if e.cur != nil {
		e.cur.abstracted[what] = true
	}
}

func (e *Engine) exprAt(pos token.Pos) string {
	return e.P.ExprText(pos, func(n ast.Node) bool { _, ok := n.(ast.Expr); return ok })
}

func (e *Engine) nilCheck(fr *frame, st *State, p Ptr, v ssa.Value, pos token.Pos) {
	c := e.C
	if isFreshRegion(p.R) {
		return
	}
	if p.R.IsConst() && p.R.Val != 0 {
		return
	}
	name := v.Name()
	if pos.IsValid() {
		if t := e.P.ExprText(pos, func(n ast.Node) bool {
			switch n.(type) {
			case *ast.SelectorExpr, *ast.StarExpr, *ast.IndexExpr, *ast.UnaryExpr, *ast.CallExpr, *ast.Ident:
				return true
			}
			return false
		}); t != "" {
			name = t
		}
	}
	e.oblige(st, fr, "nil", name, c.Not(c.IsNil(p)), pos)
}

// checkDeref: nil obligation for a load/store through p.
func (e *Engine) checkDeref(fr *frame, st *State, p Ptr, v ssa.Value, pos token.Pos, write bool, t types.Type) {
	// addresses produced by Alloc/FieldAddr/IndexAddr were checked at their creation
	switch v.(type) {
	case *ssa.Alloc, *ssa.FieldAddr, *ssa.IndexAddr, *ssa.Global:
		return
	}
	e.nilCheck(fr, st, p, v, pos)
}

// ---------------------------------------------------------------------------------------------
// Arithmetic

func (e *Engine) toBV64(v Value, t types.Type) *Term {
	sc := v.(Scalar)
	_, signed, _ := intInfo(t)
	return e.C.Resize(sc.T, 64, signed)
}

func (e *Engine) binop(fr *frame, st *State, x *ssa.BinOp) Value {
	c := e.C
	a, b := e.get(fr, x.X), e.get(fr, x.Y)
	t := x.X.Type()
	switch x.Op {
	case token.EQL, token.NEQ:
		var r *Term
		// comparison with nil of slices/interfaces/pointers/funcs/maps
		r = e.eqValues(st, a, b, x.X.Type(), x.Y.Type())
		if x.Op == token.NEQ {
			r = c.Not(r)
		}
		return Scalar{T: r}
	}
	if isString(t) {
		switch x.Op {
		case token.ADD:
			// concatenation: fresh string of the summed length with copied contents
			sa, sb := a.(Str), b.(Str)
			r := e.newRegion()
			n := c.Add(sa.Len, sb.Len)
			dst := Ptr{r, c.Const(64, 0)}
			st.facts = append(st.facts, c.copyRange(&st.heap, dst, sa.P, sa.Len, types.Typ[types.Uint8], &st.heap)...)
			st.facts = append(st.facts, c.copyRange(&st.heap, Ptr{r, sa.Len}, sb.P, sb.Len, types.Typ[types.Uint8], &st.heap)...)
			return Str{dst, n}
		default:
			e.noteAbstract("string-order")
			return Scalar{T: c.FreshVar("strcmp", BoolSort())}
		}
	}
	if isBool(t) {
		ta, tb := a.(Scalar).T, b.(Scalar).T
		switch x.Op {
		case token.AND:
			return Scalar{T: c.And(ta, tb)}
		case token.OR:
			return Scalar{T: c.Or(ta, tb)}
		case token.XOR:
			return Scalar{T: c.Not(c.Eq(ta, tb))}
		case token.AND_NOT:
			return Scalar{T: c.And(ta, c.Not(tb))}
		}
	}
	w, signed, ok := intInfo(t)
	if !ok {
		unsupported("binop %s on %s", x.Op, t)
	}
	sa, sb := a.(Scalar), b.(Scalar)
	if isFloat(t) {
		e.noteAbstract("float")
		name := fmt.Sprintf("f%s%d", floatOpName(x.Op), w)
		switch x.Op {
		case token.LSS, token.LEQ, token.GTR, token.GEQ:
			return Scalar{T: c.App(name, BoolSort(), sa.T, sb.T)}
		}
		return Scalar{T: c.App(name, BV(w), sa.T, sb.T)}
	}
	ta, tb := sa.T, sb.T
	switch x.Op {
	case token.SHL, token.SHR:
		// shift count has its own type
		cw, csigned, _ := intInfo(x.Y.Type())
		if csigned {
			e.oblige(st, fr, "shl", e.exprAt(x.Pos()), c.Sle(c.Const(cw, 0), tb), x.Pos())
		}
		var res *Term
		if tb.IsConst() {
			cnt := tb.Val
			if cnt >= uint64(w) {
				if x.Op == token.SHR && signed {
					res = c.Ashr(ta, c.Const(w, uint64(w-1)))
				} else {
					res = c.Const(w, 0)
				}
			} else {
				k := c.Const(w, cnt)
				switch {
				case x.Op == token.SHL:
					res = c.Shl(ta, k)
				case signed:
					res = c.Ashr(ta, k)
				default:
					res = c.Lshr(ta, k)
				}
			}
			return Scalar{T: res}
		}
		cnt64 := c.Resize(tb, 64, false)
		big := c.Uge(cnt64, c.Const(64, uint64(w)))
		k := c.Resize(cnt64, w, false)
		if w > 64 {
			unsupported("wide shift")
		}
		switch {
		case x.Op == token.SHL:
			res = c.Ite(big, c.Const(w, 0), c.Shl(ta, k))
		case signed:
			res = c.Ite(big, c.Ashr(ta, c.Const(w, uint64(w-1))), c.Ashr(ta, k))
		default:
			res = c.Ite(big, c.Const(w, 0), c.Lshr(ta, k))
		}
		return Scalar{T: res}
	}
	if ta.S != tb.S {
		unsupported("binop operand widths differ: %s", x)
	}
	var res *Term
	switch x.Op {
	case token.ADD:
		res = c.Add(ta, tb)
	case token.SUB:
		res = c.Sub(ta, tb)
	case token.MUL:
		res = c.Mul(ta, tb)
	case token.QUO:
		e.oblige(st, fr, "div", e.exprAt(x.Pos()), c.Ne(tb, c.Const(w, 0)), x.Pos())
		if signed {
			res = c.SDiv(ta, tb)
		} else {
			res = c.UDiv(ta, tb)
		}
	case token.REM:
		e.oblige(st, fr, "div", e.exprAt(x.Pos()), c.Ne(tb, c.Const(w, 0)), x.Pos())
		if signed {
			res = c.SRem(ta, tb)
		} else {
			res = c.URem(ta, tb)
		}
	case token.AND:
		res = c.BAnd(ta, tb)
	case token.OR:
		res = c.BOr(ta, tb)
	case token.XOR:
		res = c.BXor(ta, tb)
	case token.AND_NOT:
		res = c.BAnd(ta, c.BNot(tb))
	case token.LSS:
		if signed {
			return Scalar{T: c.Slt(ta, tb)}
		}
		return Scalar{T: c.Ult(ta, tb)}
	case token.LEQ:
		if signed {
			return Scalar{T: c.Sle(ta, tb)}
		}
		return Scalar{T: c.Ule(ta, tb)}
	case token.GTR:
		if signed {
			return Scalar{T: c.Slt(tb, ta)}
		}
		return Scalar{T: c.Ult(tb, ta)}
	case token.GEQ:
		if signed {
			return Scalar{T: c.Sle(tb, ta)}
		}
		return Scalar{T: c.Ule(tb, ta)}
	default:
		unsupported("binop %s", x.Op)
	}
	out := Scalar{T: res}
	// uintptr provenance
	if sa.R != nil && sb.R == nil && (x.Op == token.ADD || x.Op == token.SUB || x.Op == token.XOR || x.Op == token.AND_NOT) {
		out.R = sa.R
	} else if sb.R != nil && sa.R == nil && x.Op == token.ADD {
		out.R = sb.R
	}
	return out
}

func floatOpName(op token.Token) string {
	switch op {
	case token.ADD:
		return "add"
	case token.SUB:
		return "sub"
	case token.MUL:
		return "mul"
	case token.QUO:
		return "div"
	case token.LSS:
		return "lt"
	case token.LEQ:
		return "le"
	case token.GTR:
		return "gt"
	case token.GEQ:
		return "ge"
	}
	return "op"
}

func (e *Engine) eqValues(st *State, a, b Value, ta, tb types.Type) *Term {
	c := e.C
	// interface vs concrete comparisons do not occur in SSA (MakeInterface is explicit)
	if sa, ok := a.(Slice); ok {
		// slice == nil
		_ = b
		return c.IsNil(sa.P)
	}
	if _, ok := b.(Slice); ok {
		return c.IsNil(b.(Slice).P)
	}
	if isFloat(ta) {
		e.noteAbstract("float")
		w, _, _ := intInfo(ta)
		return c.App(fmt.Sprintf("feq%d", w), BoolSort(), a.(Scalar).T, b.(Scalar).T)
	}
	if ia, ok := a.(Iface); ok {
		ib := b.(Iface)
		// comparison of two non-nil interfaces with the same dynamic type compares the boxed values;
		// exact when either side is nil, else approximated by box identity OR unknown equality.
		nilA, nilB := c.Eq(ia.Typ, c.Const(TypW, 0)), c.Eq(ib.Typ, c.Const(TypW, 0))
		if nilA.IsTrue() || nilB.IsTrue() {
			return c.Eq(ia.Typ, ib.Typ)
		}
		same := c.And(c.Eq(ia.Typ, ib.Typ), c.PtrEq(ia.P, ib.P))
		unk := c.And(c.Eq(ia.Typ, ib.Typ), c.Not(nilA), c.App("ifaceboxeq", BoolSort(), ia.Typ, ia.P.R, ia.P.O, ib.P.R, ib.P.O))
		return c.Or(same, unk)
	}
	return c.EqVal(a, b, &st.heap)
}

func (e *Engine) unop(fr *frame, st *State, x *ssa.UnOp) Value {
	c := e.C
	v := e.get(fr, x.X)
	switch x.Op {
	case token.NOT:
		return Scalar{T: c.Not(v.(Scalar).T)}
	case token.SUB:
		if isFloat(x.X.Type()) {
			w, _, _ := intInfo(x.X.Type())
			return Scalar{T: c.BXor(v.(Scalar).T, c.Const(w, 1<<uint(w-1)))}
		}
		return Scalar{T: c.Neg(v.(Scalar).T)}
	case token.XOR:
		return Scalar{T: c.BNot(v.(Scalar).T)}
	case token.MUL:
		if ia, ok := x.X.(*ssa.IndexAddr); ok {
			if g, ok := ia.X.(*ssa.Global); ok {
				if tab := e.frozenTable(g); tab != nil {
					// read of a frozen table: closed lookup term instead of a heap read
					idx := e.idx64(fr, ia.Index)
					w, _, _ := intInfo(x.Type())
					r := c.Const(w, tab.def)
					for _, k := range tab.keys {
						r = c.Ite(c.Eq(idx, c.Const(64, uint64(k))), c.Const(w, tab.vals[k]), r)
					}
					return Scalar{T: r}
				}
			}
		}
		p := toPtr(v)
		e.checkDeref(fr, st, p, x.X, x.Pos(), false, x.Type())
		if fr.raw[x.X] {
			e.memOblig(fr, st, p, sizeof(x.Type()), "load:"+e.exprAt(x.Pos()), x.Pos())
		}
		r := c.Load(&st.heap, p, 0, x.Type())
		e.assumeLoaded(st, r, x.Type())
		if g, ok := x.X.(*ssa.Global); ok {
			e.assumeGlobal(st, g, r)
		}
		return r
	}
	unsupported("unop %s", x.Op)
	return nil
}

func (e *Engine) assumeLoaded(st *State, v Value, t types.Type) {
	var as []*Term
	e.C.wfAssume(v, &as)
	for _, a := range as {
		st.assume(a)
	}
	e.addExtents(st, v, t)
}

// addExtents records the memory spans of the slices and strings contained in v as valid.
func (e *Engine) addExtents(st *State, v Value, t types.Type) {
	c := e.C
	add := func(r, lo, hi *Term) {
		for _, x := range st.ext {
			if x.R == r && x.Lo == lo && x.Hi == hi {
				return
			}
		}
		st.ext = append(st.ext, extent{R: r, Lo: lo, Hi: hi})
	}
	switch x := v.(type) {
	case Slice:
		es := int64(1)
		if t != nil {
			if sl, ok := t.Underlying().(*types.Slice); ok {
				es = sizeof(sl.Elem())
			}
		} else {
			es = 0 // unknown element size: only the byte view by cap is safe when es==1; use len*1 lower bound
		}
		if es == 0 {
			add(x.P.R, x.P.O, c.Add(x.P.O, x.Cap))
		} else {
			add(x.P.R, x.P.O, c.Add(x.P.O, c.Mul(x.Cap, c.Const(64, uint64(es)))))
		}
	case Str:
		add(x.P.R, x.P.O, c.Add(x.P.O, x.Len))
	case Struct:
		var st0 *types.Struct
		if t != nil {
			st0, _ = t.Underlying().(*types.Struct)
		}
		for i, f := range x.F {
			var ft types.Type
			if st0 != nil {
				ft = st0.Field(i).Type()
			}
			e.addExtents(st, f, ft)
		}
	case Tuple:
		for _, f := range x.E {
			e.addExtents(st, f, nil)
		}
	}
}

// memOblig: an access of size bytes through a pointer of unsafe provenance must fall inside memory
// known to be valid on this path.
func (e *Engine) memOblig(fr *frame, st *State, p Ptr, size int64, detail string, pos token.Pos) {
	c := e.C
	size0 := size
	if isFreshRegion(p.R) && p.O.IsConst() {
		// constant offset into an allocation of this call: decide directly
		for _, x := range st.ext {
			if x.R == p.R && x.Lo.IsConst() && x.Hi.IsConst() && x.Lo.Val <= p.O.Val && p.O.Val+uint64(size) <= x.Hi.Val {
				return
			}
		}
	}
	end := c.Add(p.O, c.Const(64, uint64(size)))
	var alts []*Term
	for _, x := range st.ext {
		if c.regionsDistinct(x.R, p.R) {
			continue
		}
		off, size := c.Sub(p.O, x.Lo), c.Sub(x.Hi, x.Lo)
		in := c.And(c.Eq(p.R, x.R), c.Ule(off, size), c.Ule(c.Const(64, uint64(size0)), c.Sub(size, off)))
		if x.Cond != nil {
			in = c.And(x.Cond, in)
		}
		alts = append(alts, in)
	}
	_ = end
	e.oblige(st, fr, "mem", detail, c.Or(alts...), pos)
}

var rawCache = map[*ssa.Function]map[ssa.Value]bool{}

func isUnsafePtr(t types.Type) bool {
	b, ok := t.Underlying().(*types.Basic)
	return ok && b.Kind() == types.UnsafePointer
}

// rawPointers: SSA values that are pointers of unsafe provenance (static fixpoint, DESIGN §3.3).
func rawPointers(fn *ssa.Function) map[ssa.Value]bool {
	if m, ok := rawCache[fn]; ok {
		return m
	}
	raw := map[ssa.Value]bool{}
	for _, p := range fn.Params {
		if isUnsafePtr(p.Type()) {
			raw[p] = true
		}
	}
	for _, fv := range fn.FreeVars {
		if isUnsafePtr(fv.Type()) {
			raw[fv] = true
		}
	}
	for changed := true; changed; {
		changed = false
		mark := func(v ssa.Value) {
			if !raw[v] {
				raw[v] = true
				changed = true
			}
		}
		for _, b := range fn.Blocks {
			for _, in := range b.Instrs {
				switch x := in.(type) {
				case *ssa.Convert:
					if bt, ok := x.X.Type().Underlying().(*types.Basic); ok && bt.Kind() == types.Uintptr && isUnsafePtr(x.Type()) {
						mark(x)
					} else if raw[x.X] {
						mark(x)
					}
				case *ssa.ChangeType:
					if raw[x.X] {
						mark(x)
					}
				case *ssa.UnOp:
					if x.Op == token.MUL && isUnsafePtr(x.Type()) {
						mark(x)
					}
				case *ssa.Call:
					if isUnsafePtr(x.Type()) {
						mark(x)
					}
					if bi, ok := x.Common().Value.(*ssa.Builtin); ok && bi.Name() == "Add" {
						mark(x)
					}
				case *ssa.Extract:
					if isUnsafePtr(x.Type()) {
						mark(x)
					}
				case *ssa.Field:
					if isUnsafePtr(x.Type()) {
						mark(x)
					}
				case *ssa.FieldAddr:
					if raw[x.X] {
						mark(x)
					}
				case *ssa.IndexAddr:
					if raw[x.X] {
						mark(x)
					}
				case *ssa.Phi:
					for _, ed := range x.Edges {
						if raw[ed] {
							mark(x)
						}
					}
				}
			}
		}
	}
	rawCache[fn] = raw
	return raw
}

// ---------------------------------------------------------------------------------------------
// Indexing, slicing

func (e *Engine) idx64(fr *frame, v ssa.Value) *Term {
	return e.toBV64(e.get(fr, v), v.Type())
}

func (e *Engine) boundsOblig(fr *frame, st *State, i, n *Term, pos token.Pos) {
	c := e.C
	txt := e.P.ExprText(pos, func(n ast.Node) bool { _, ok := n.(*ast.IndexExpr); return ok })
	if txt == "" {
		txt = e.exprAt(pos)
	}
	e.oblige(st, fr, "idx", txt, c.Ult(i, n), pos) // unsigned compare covers i<0 as n < 2^40
}

func (e *Engine) indexAddr(fr *frame, st *State, x *ssa.IndexAddr) Value {
	c := e.C
	i := e.idx64(fr, x.Index)
	switch t := x.X.Type().Underlying().(type) {
	case *types.Slice:
		s := e.get(fr, x.X).(Slice)
		e.boundsOblig(fr, st, i, s.Len, x.Pos())
		es := sizeof(t.Elem())
		return Ptr{s.P.R, c.Add(s.P.O, c.Mul(i, c.Const(64, uint64(es))))}
	case *types.Pointer:
		at := t.Elem().Underlying().(*types.Array)
		p := toPtr(e.get(fr, x.X))
		e.nilCheck(fr, st, p, x.X, x.Pos())
		e.boundsOblig(fr, st, i, c.Const(64, uint64(at.Len())), x.Pos())
		es := sizeof(at.Elem())
		return Ptr{p.R, c.Add(p.O, c.Mul(i, c.Const(64, uint64(es))))}
	}
	unsupported("IndexAddr on %s", x.X.Type())
	return nil
}

func (e *Engine) index(fr *frame, st *State, x *ssa.Index) Value {
	c := e.C
	i := e.idx64(fr, x.Index)
	switch v := e.get(fr, x.X).(type) {
	case Arr:
		e.boundsOblig(fr, st, i, c.Const(64, uint64(len(v.E))), x.Pos())
		if i.IsConst() {
			return v.E[i.Val]
		}
		r := v.E[len(v.E)-1]
		for j := len(v.E) - 2; j >= 0; j-- {
			r = c.IteVal(c.Eq(i, c.Const(64, uint64(j))), v.E[j], r)
		}
		return r
	case Str:
		e.boundsOblig(fr, st, i, v.Len, x.Pos())
		return Scalar{T: e.loadStrByte(st, v, i)}
	}
	unsupported("Index on %s", x.X.Type())
	return nil
}

func (e *Engine) loadStrByte(st *State, s Str, i *Term) *Term {
	c := e.C
	if s.P.R.IsConst() {
		if str, ok := e.strByRegion[uint32(s.P.R.Val)]; ok {
			off := c.Add(s.P.O, i)
			if off.IsConst() && off.Val < uint64(len(str)) {
				return c.Const(8, uint64(str[off.Val]))
			}
			// symbolic index into constant string: lookup chain (bounded by 256)
			if len(str) <= 256 {
				r := c.Const(8, uint64(str[len(str)-1]))
				for j := len(str) - 2; j >= 0; j-- {
					r = c.Ite(c.Eq(off, c.Const(64, uint64(j))), c.Const(8, uint64(str[j])), r)
				}
				return r
			}
		}
	}
	return c.loadCell(&st.heap, K8, Ptr{s.P.R, c.Add(s.P.O, i)}, 0)
}

func (e *Engine) lookup(fr *frame, st *State, x *ssa.Lookup) Value {
	c := e.C
	if isString(x.X.Type()) {
		s := e.get(fr, x.X).(Str)
		i := e.idx64(fr, x.Index)
		e.boundsOblig(fr, st, i, s.Len, x.Pos())
		return Scalar{T: e.loadStrByte(st, s, i)}
	}
	mt := x.X.Type().Underlying().(*types.Map)
	// lookup in a frozen package-level map with a constant literal: closed term
	if ld, ok := x.X.(*ssa.UnOp); ok && ld.Op == token.MUL {
		if g, ok := ld.X.(*ssa.Global); ok {
			if tab := e.frozenMap(g); tab != nil {
				k := e.get(fr, x.Index).(Scalar).T
				kw, _, _ := intInfo(mt.Key())
				vw, _, _ := intInfo(mt.Elem())
				r := c.Const(vw, 0)
				var hits []*Term
				for _, key := range tab.keys {
					hit := c.Eq(k, c.Const(kw, uint64(key)))
					hits = append(hits, hit)
					r = c.Ite(hit, c.Const(vw, tab.vals[key]), r)
				}
				if x.CommaOk {
					return Tuple{[]Value{Scalar{T: r}, Scalar{T: c.Or(hits...)}}}
				}
				return Scalar{T: r}
			}
		}
	}
	// map lookup: abstract
	e.noteAbstract("map")
	var as []*Term
	v := c.Fresh(mt.Elem(), "maplookup", false, &as)
	for _, a := range as {
		st.assume(a)
	}
	if x.CommaOk {
		ok := c.FreshVar("mapok", BoolSort())
		m := toPtr(e.get(fr, x.X))
		st.assume(c.Implies(c.IsNil(m), c.Not(ok)))
		// a missing key yields the zero value
		v = c.IteVal(ok, v, c.Zero(mt.Elem()))
		return Tuple{[]Value{v, Scalar{T: ok}}}
	}
	return v
}

func (e *Engine) slice(fr *frame, st *State, x *ssa.Slice) Value {
	c := e.C
	var base Ptr
	var ln, cp *Term
	var es int64
	isStr := false
	switch t := x.X.Type().Underlying().(type) {
	case *types.Slice:
		s := e.get(fr, x.X).(Slice)
		base, ln, cp, es = s.P, s.Len, s.Cap, sizeof(t.Elem())
	case *types.Basic:
		s := e.get(fr, x.X).(Str)
		base, ln, cp, es, isStr = s.P, s.Len, s.Len, 1, true
	case *types.Pointer:
		at := t.Elem().Underlying().(*types.Array)
		p := toPtr(e.get(fr, x.X))
		e.nilCheck(fr, st, p, x.X, x.Pos())
		n := c.Const(64, uint64(at.Len()))
		base, ln, cp, es = p, n, n, sizeof(at.Elem())
	default:
		unsupported("Slice on %s", x.X.Type())
	}
	lo := c.Const(64, 0)
	if x.Low != nil {
		lo = e.idx64(fr, x.Low)
	}
	hi := ln
	if x.High != nil {
		hi = e.idx64(fr, x.High)
	}
	mx := cp
	if x.Max != nil {
		mx = e.idx64(fr, x.Max)
	}
	txt := e.P.ExprText(x.Pos(), func(n ast.Node) bool { _, ok := n.(*ast.SliceExpr); return ok })
	// Go: 0 <= lo <= hi <= max <= cap   (strings: hi <= len)
	var conds []*Term
	if x.Max != nil {
		conds = append(conds, c.Ule(mx, cp))
	}
	limit := mx
	if isStr {
		limit = ln
	}
	if x.High != nil || x.Max != nil {
		conds = append(conds, c.Ule(hi, limit))
	}
	if x.Low != nil {
		conds = append(conds, c.Ule(lo, hi))
	}
	e.oblige(st, fr, "slc", txt, c.And(conds...), x.Pos())
	np := Ptr{base.R, c.Add(base.O, c.Mul(lo, c.Const(64, uint64(es))))}
	if isStr {
		return Str{np, c.Sub(hi, lo)}
	}
	return Slice{np, c.Sub(hi, lo), c.Sub(mx, lo)}
}

func (e *Engine) makeSlice(fr *frame, st *State, x *ssa.MakeSlice) Value {
	c := e.C
	ln := e.idx64(fr, x.Len)
	cp := e.idx64(fr, x.Cap)
	txt := e.P.ExprText(x.Pos(), func(n ast.Node) bool { _, ok := n.(*ast.CallExpr); return ok })
	et := x.Type().Underlying().(*types.Slice).Elem()
	e.oblige(st, fr, "mk", txt, c.And(c.Sle(c.Const(64, 0), ln), c.Sle(ln, cp)), x.Pos())
	e.allocOblig(fr, st, txt, c.Mul(cp, c.Const(64, uint64(sizeof(et)))), x.Pos())
	// runtime would panic beyond this; modelled as an assumption after the alloc obligation
	st.assume(c.Slt(cp, c.Const(64, 1<<40)))
	r := e.newRegion()
	c.zeroRegion(&st.heap, r, et)
	st.ext = append(st.ext, extent{R: r, Lo: c.Const(64, 0), Hi: c.Mul(cp, c.Const(64, uint64(sizeof(et))))})
	return Slice{Ptr{r, c.Const(64, 0)}, ln, cp}
}

// allocOblig: allocation-size obligations are generated only when the root contract carries an
// `allocates` clause (DESIGN §5.1 alloc#k).
func (e *Engine) allocOblig(fr *frame, st *State, txt string, nbytes *Term, pos token.Pos) {
	rc := e.cur
	if rc == nil || rc.spec == nil || rc.spec.Allocates == nil || nbytes.IsConst() {
		return
	}
	bound := e.evalSpecTerm(rc.spec.Allocates, rc, st, nil)
	e.oblige(st, fr, "alloc", txt, e.C.And(e.C.Sle(nbytes, bound), e.C.Sle(e.C.Const(64, 0), nbytes)), pos)
}

// ---------------------------------------------------------------------------------------------
// Conversions, interfaces

func (e *Engine) convert(fr *frame, st *State, x *ssa.Convert) Value {
	c := e.C
	v := e.get(fr, x.X)
	from, to := x.X.Type(), x.Type()
	fu, tu := from.Underlying(), to.Underlying()
	// pointer <-> unsafe.Pointer
	fb, fIsB := fu.(*types.Basic)
	tb, tIsB := tu.(*types.Basic)
	if fIsB && fb.Kind() == types.UnsafePointer {
		if tIsB && tb.Kind() == types.Uintptr {
			p := v.(Ptr)
			return Scalar{T: p.O, R: p.R}
		}
		return v // to *T
	}
	if tIsB && tb.Kind() == types.UnsafePointer {
		if fIsB && fb.Kind() == types.Uintptr {
			sc := v.(Scalar)
			if sc.R == nil {
				if sc.T.IsConst() && sc.T.Val == 0 {
					return c.NilPtr()
				}
				unsupported("uintptr without provenance converted to pointer in %s", fr.fn)
			}
			return Ptr{sc.R, sc.T}
		}
		return v
	}
	// string <-> []byte
	if isString(from) {
		if _, ok := tu.(*types.Slice); ok {
			s := v.(Str)
			r := e.newRegion()
			dst := Ptr{r, c.Const(64, 0)}
			c.zeroRegion(&st.heap, r, types.Typ[types.Uint8])
			st.facts = append(st.facts, c.copyRange(&st.heap, dst, s.P, s.Len, types.Typ[types.Uint8], &st.heap)...)
			return Slice{dst, s.Len, s.Len}
		}
	}
	if isString(to) {
		if sl, ok := fu.(*types.Slice); ok && sizeof(sl.Elem()) == 1 {
			s := v.(Slice)
			r := e.newRegion()
			dst := Ptr{r, c.Const(64, 0)}
			c.zeroRegion(&st.heap, r, types.Typ[types.Uint8])
			st.facts = append(st.facts, c.copyRange(&st.heap, dst, s.P, s.Len, types.Typ[types.Uint8], &st.heap)...)
			return Str{dst, s.Len}
		}
		if _, _, ok := intInfo(from); ok {
			// string(rune): 1..4 bytes, contents abstract
			e.noteAbstract("string(rune)")
			r := e.newRegion()
			n := c.FreshVar("runelen", BV(64))
			st.assume(c.And(c.Sle(c.Const(64, 1), n), c.Sle(n, c.Const(64, 4))))
			c.havocRegion(&st.heap, r)
			return Str{Ptr{r, c.Const(64, 0)}, n}
		}
	}
	fw, fs, fok := intInfo(from)
	tw, _, tok := intInfo(to)
	if fok && tok {
		sc := v.(Scalar)
		ff, tf := isFloat(from), isFloat(to)
		switch {
		case !ff && !tf:
			out := Scalar{T: c.Resize(sc.T, tw, fs)}
			if sc.R != nil && tw == 64 {
				out.R = sc.R
			}
			return out
		case ff && tf:
			if fw == tw {
				return sc
			}
			e.noteAbstract("float")
			return Scalar{T: c.App(fmt.Sprintf("fcvt%dto%d", fw, tw), BV(tw), sc.T)}
		case ff:
			e.noteAbstract("float")
			return Scalar{T: c.App(fmt.Sprintf("f%dtoi%d", fw, tw), BV(tw), sc.T)}
		default:
			e.noteAbstract("float")
			sg := "u"
			if fs {
				sg = "s"
			}
			return Scalar{T: c.App(fmt.Sprintf("%si%dtof%d", sg, fw, tw), BV(tw), sc.T)}
		}
	}
	unsupported("convert %s -> %s", from, to)
	return nil
}

func (e *Engine) makeInterface(st *State, v Value, t types.Type) Value {
	c := e.C
	id := c.Const(TypW, uint64(e.typeID(t)))
	if isPointerShaped(t) {
		return Iface{id, toPtr(v)}
	}
	r := e.newRegion()
	p := Ptr{r, c.Const(64, 0)}
	if sizeof(t) > 0 {
		c.zeroRegion(&st.heap, r, t)
		c.Store_(&st.heap, p, 0, t, v)
	}
	return Iface{id, p}
}

func (e *Engine) typeAssert(fr *frame, st *State, x *ssa.TypeAssert) Value {
	c := e.C
	iv := e.get(fr, x.X).(Iface)
	at := x.AssertedType
	var ok *Term
	var val Value
	if _, isIface := at.Underlying().(*types.Interface); isIface {
		if iv.Typ.IsConst() {
			if iv.Typ.Val == 0 {
				ok = c.False()
			} else {
				dt := e.typeByID[uint32(iv.Typ.Val)]
				ok = c.Bool(types.Implements(dt, at.Underlying().(*types.Interface)))
			}
		} else {
			ok = c.And(c.Ne(iv.Typ, c.Const(TypW, 0)), c.App("implements_"+sanitize(types.TypeString(at, nil)), BoolSort(), iv.Typ))
		}
		val = iv
	} else {
		id := c.Const(TypW, uint64(e.typeID(at)))
		ok = c.Eq(iv.Typ, id)
		if isPointerShaped(at) {
			if _, isSig := at.Underlying().(*types.Signature); isSig {
				val = FuncV{P: iv.P}
			} else {
				val = iv.P
			}
		} else if sizeof(at) == 0 {
			val = c.Zero(at)
		} else {
			val = c.Load(&st.heap, iv.P, 0, at)
			e.assumeLoaded(st, val, at)
		}
	}
	if x.CommaOk {
		// on failure the value is the zero value
		return Tuple{[]Value{c.IteVal(ok, val, c.Zero(at)), Scalar{T: ok}}}
	}
	txt := e.P.ExprText(x.Pos(), func(n ast.Node) bool { _, ok := n.(*ast.TypeAssertExpr); return ok })
	e.oblige(st, fr, "asrt", txt, ok, x.Pos())
	return val
}

// next: range iteration step. Strings and maps are abstract: an arbitrary number of iterations.
func (e *Engine) next(fr *frame, st *State, x *ssa.Next) Value {
	c := e.C
	ok := c.FreshVar("rangeok", BoolSort())
	tt := x.Type().(*types.Tuple)
	var as []*Term
	k := c.Fresh(tt.At(1).Type(), "rangek", false, &as)
	v := c.Fresh(tt.At(2).Type(), "rangev", false, &as)
	for _, a := range as {
		st.assume(a)
	}
	e.noteAbstract("range")
	return Tuple{[]Value{Scalar{T: ok}, k, v}}
}

func sortedKeys(m map[string]bool) []string {
	var ks []string
	for k := range m {
		ks = append(ks, k)
	}
	sort.Strings(ks)
	return ks
}

type frozenTab struct {
	keys []int64
	vals map[int64]uint64
	def  uint64
}

// frozenMap extracts the literal of a package-level map[int-kind]int-kind that is declared frozen: the
// variable is stored once, in its package initialiser, with a map built there from constant entries; every
// other use in the program is a load whose value is only ever looked up (checked over the whole program).
func (e *Engine) frozenMap(g *ssa.Global) *frozenTab {
	if t, ok := e.frozenMaps[g]; ok {
		return t
	}
	if e.frozenMaps == nil {
		e.frozenMaps = map[*ssa.Global]*frozenTab{}
	}
	e.frozenMaps[g] = nil
	if g.Pkg == nil || !e.Frozen[g.Pkg.Pkg.Path()+"."+g.Name()] {
		return nil
	}
	mt, ok := g.Type().Underlying().(*types.Pointer).Elem().Underlying().(*types.Map)
	if !ok {
		return nil
	}
	if _, _, ok := intInfo(mt.Key()); !ok {
		return nil
	}
	if _, _, ok := intInfo(mt.Elem()); !ok {
		return nil
	}
	if e.frozenCheck(g) != "" {
		return nil
	}
	// every load of the variable outside the initialiser is only looked up
	check := func(fn *ssa.Function) bool {
		for _, b := range fn.Blocks {
			for _, in := range b.Instrs {
				ld, ok := in.(*ssa.UnOp)
				if !ok || ld.X != ssa.Value(g) {
					continue
				}
				if refs := ld.Referrers(); refs != nil {
					for _, r := range *refs {
						switch r.(type) {
						case *ssa.Lookup, *ssa.DebugRef:
						default:
							return false
						}
					}
				}
			}
		}
		return true
	}
	for _, fn := range e.P.Funcs {
		if !check(fn) {
			return nil
		}
		for _, an := range fn.AnonFuncs {
			if !check(an) {
				return nil
			}
		}
	}
	init := g.Pkg.Func("init")
	if init == nil {
		return nil
	}
	var mk *ssa.MakeMap
	for _, b := range init.Blocks {
		for _, in := range b.Instrs {
			if s, ok := in.(*ssa.Store); ok && s.Addr == ssa.Value(g) {
				m, ok := s.Val.(*ssa.MakeMap)
				if !ok || mk != nil {
					return nil
				}
				mk = m
			}
		}
	}
	if mk == nil || mk.Referrers() == nil {
		return nil
	}
	tab := &frozenTab{vals: map[int64]uint64{}}
	for _, r := range *mk.Referrers() {
		switch u := r.(type) {
		case *ssa.MapUpdate:
			kc, ok1 := u.Key.(*ssa.Const)
			vc, ok2 := u.Value.(*ssa.Const)
			if !ok1 || !ok2 || u.Map != ssa.Value(mk) {
				return nil
			}
			k := kc.Int64()
			if _, dup := tab.vals[k]; !dup {
				tab.keys = append(tab.keys, k)
			}
			tab.vals[k] = uint64(vc.Int64())
		case *ssa.Store:
			if u.Addr != ssa.Value(g) {
				return nil
			}
		case *ssa.DebugRef:
		default:
			return nil
		}
	}
	sort.Slice(tab.keys, func(i, j int) bool { return tab.keys[i] < tab.keys[j] })
	e.frozenMaps[g] = tab
	return tab
}

// frozenTable extracts the contents of a package-level integer array that is declared frozen and is
// only ever stored to by constant stores in its package initialiser (checked), or nil.
func (e *Engine) frozenTable(g *ssa.Global) *frozenTab {
	if t, ok := e.frozenTabs[g]; ok {
		return t
	}
	if e.frozenTabs == nil {
		e.frozenTabs = map[*ssa.Global]*frozenTab{}
	}
	e.frozenTabs[g] = nil
	if g.Pkg == nil || !e.Frozen[g.Pkg.Pkg.Path()+"."+g.Name()] {
		return nil
	}
	at, ok := g.Type().Underlying().(*types.Pointer).Elem().Underlying().(*types.Array)
	if !ok {
		return nil
	}
	if _, _, ok := intInfo(at.Elem()); !ok || e.frozenCheck(g) != "" {
		return nil
	}
	init := g.Pkg.Func("init")
	if init == nil {
		return nil
	}
	tab := &frozenTab{vals: map[int64]uint64{}}
	for _, b := range init.Blocks {
		for _, in := range b.Instrs {
			s, ok := in.(*ssa.Store)
			if !ok {
				continue
			}
			ia, ok := s.Addr.(*ssa.IndexAddr)
			if !ok || ia.X != g {
				continue
			}
			ic, ok1 := ia.Index.(*ssa.Const)
			vc, ok2 := s.Val.(*ssa.Const)
			if !ok1 || !ok2 {
				return nil
			}
			k := ic.Int64()
			if _, dup := tab.vals[k]; !dup {
				tab.keys = append(tab.keys, k)
			}
			tab.vals[k] = uint64(vc.Int64())
		}
	}
	sort.Slice(tab.keys, func(i, j int) bool { return tab.keys[i] < tab.keys[j] })
	e.frozenTabs[g] = tab
	return tab
}
