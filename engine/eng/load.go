package eng

import (
	"fmt"
	"go/ast"
	"go/token"
	"go/types"
	"os"
	"sort"
	"strings"

	"golang.org/x/tools/go/ast/astutil"
	"golang.org/x/tools/go/packages"
	"golang.org/x/tools/go/ssa"
	"golang.org/x/tools/go/ssa/ssautil"
)

type Program struct {
	Fset    *token.FileSet
	Pkgs    []*packages.Package
	All     map[string]*packages.Package // by path, incl. deps
	SSA     *ssa.Program
	Funcs   map[string]*ssa.Function // key: pkgpath + "." + relative name, e.g. "…/thrift.(*BinaryProtocol).skipn"
	files   map[*token.File]*ast.File
	RepoDir string
}

const ModPath = "github.com/cloudwego/dynamicgo"

// LoadProgram loads the given package patterns from the repository working tree with the verif tag.
func LoadProgram(repo string, patterns []string) (*Program, error) {
	cfg := &packages.Config{
		Mode:       packages.LoadAllSyntax,
		Dir:        repo,
		BuildFlags: []string{"-tags=verif"},
		Env:        append(os.Environ(), "GOFLAGS=-mod=mod", "GOPROXY=off", "GOSUMDB=off", "GOTOOLCHAIN=local"),
	}
	pkgs, err := packages.Load(cfg, patterns...)
	if err != nil {
		return nil, err
	}
	var errs []string
	packages.Visit(pkgs, nil, func(p *packages.Package) {
		for _, e := range p.Errors {
			errs = append(errs, e.Error())
		}
	})
	if len(errs) > 0 {
		return nil, fmt.Errorf("package errors: %s", strings.Join(errs, "; "))
	}
	prog, _ := ssautil.AllPackages(pkgs, ssa.GlobalDebug|ssa.InstantiateGenerics)
	prog.Build()
	P := &Program{Fset: prog.Fset, Pkgs: pkgs, SSA: prog, Funcs: map[string]*ssa.Function{}, All: map[string]*packages.Package{},
		files: map[*token.File]*ast.File{}, RepoDir: repo}
	packages.Visit(pkgs, nil, func(p *packages.Package) {
		P.All[p.PkgPath] = p
		for _, f := range p.Syntax {
			if tf := prog.Fset.File(f.Pos()); tf != nil {
				P.files[tf] = f
			}
		}
	})
	for fn := range ssautil.AllFunctions(prog) {
		if fn.Pkg == nil {
			if fn.Signature.Recv() == nil {
				continue
			}
		}
		P.Funcs[FuncKey(fn)] = fn
	}
	return P, nil
}

// FuncKey: "<pkgpath>.<name>" for functions, "<pkgpath>.(*T).m" / "<pkgpath>.T.m" for methods,
// closures "<outer>$k".
func FuncKey(fn *ssa.Function) string {
	if fn.Parent() != nil {
		return FuncKey(fn.Parent()) + "$" + strings.TrimPrefix(fn.Name(), fn.Parent().Name()+"$")
	}
	var pkg *types.Package
	if fn.Pkg != nil {
		pkg = fn.Pkg.Pkg
	} else if fn.Object() != nil {
		pkg = fn.Object().Pkg()
	}
	rel := fn.RelString(pkg)
	if pkg == nil {
		return rel
	}
	return pkg.Path() + "." + rel
}

// ShortKey strips the module path for display / obligation ids.
func ShortKey(k string) string {
	k = strings.TrimPrefix(k, ModPath+"/")
	return k
}

func (p *Program) SortedFuncKeys() []string {
	var ks []string
	for k := range p.Funcs {
		ks = append(ks, k)
	}
	sort.Strings(ks)
	return ks
}

// ExprText returns the normalised source text of the innermost AST node at pos satisfying want.
func (p *Program) ExprText(pos token.Pos, want func(ast.Node) bool) string {
	if !pos.IsValid() {
		return ""
	}
	tf := p.Fset.File(pos)
	if tf == nil {
		return ""
	}
	f := p.files[tf]
	if f == nil {
		return ""
	}
	path, _ := astutil.PathEnclosingInterval(f, pos, pos)
	for _, n := range path {
		if want(n) {
			if e, ok := n.(ast.Expr); ok {
				return types.ExprString(e)
			}
			return fmt.Sprintf("%T", n)
		}
	}
	return ""
}

func (p *Program) Position(pos token.Pos) string {
	if !pos.IsValid() {
		return ""
	}
	ps := p.Fset.Position(pos)
	return fmt.Sprintf("%s:%d", strings.TrimPrefix(ps.Filename, p.RepoDir+"/"), ps.Line)
}
