// Package eng is the dgv verification-condition generator: symbolic execution of go/ssa
// with a typed-cells memory model, contracts, and SMT emission (see /verif/DESIGN.md §3).
package eng

import (
	"fmt"
	"math/bits"
	"sort"
	"strings"
)

// ---------------------------------------------------------------------------------------------
// Sorts

type SortKind int

const (
	SBool SortKind = iota
	SBV
	SArr
)

type Sort struct {
	K    SortKind
	W    int   // SBV
	I, E *Sort // SArr
}

var sortCache = map[string]*Sort{}

func BoolSort() *Sort { return mkSort("B", &Sort{K: SBool}) }
func BV(w int) *Sort  { return mkSort(fmt.Sprintf("bv%d", w), &Sort{K: SBV, W: w}) }
func ArrSort(i, e *Sort) *Sort {
	return mkSort("A("+i.String()+","+e.String()+")", &Sort{K: SArr, I: i, E: e})
}
func mkSort(k string, s *Sort) *Sort {
	if x, ok := sortCache[k]; ok {
		return x
	}
	sortCache[k] = s
	return s
}
func (s *Sort) String() string {
	switch s.K {
	case SBool:
		return "Bool"
	case SBV:
		return fmt.Sprintf("(_ BitVec %d)", s.W)
	default:
		return "(Array " + s.I.String() + " " + s.E.String() + ")"
	}
}

// ---------------------------------------------------------------------------------------------
// Terms (hash-consed)

type Op int

const (
	OConst Op = iota // BV constant (Val) or Bool constant (Val 0/1)
	OVar
	ONot
	OAnd
	OOr
	OEq
	OIte
	OAdd
	OSub
	OMul
	OUDiv
	OURem
	OSDiv
	OSRem
	OBAnd
	OBOr
	OBXor
	OBNot
	ONeg
	OShl
	OLshr
	OAshr
	OUlt
	OUle
	OSlt
	OSle
	OConcat
	OExtract // I1=hi I2=lo
	OZext    // I1 = extra bits
	OSext
	OSelect
	OStore
	OConstArr // args[0] = element value ; sort is array
	OApp      // uninterpreted function Name(args)
)

var opName = map[Op]string{ONot: "not", OAnd: "and", OOr: "or", OEq: "=", OIte: "ite", OAdd: "bvadd", OSub: "bvsub",
	OMul: "bvmul", OUDiv: "bvudiv", OURem: "bvurem", OSDiv: "bvsdiv", OSRem: "bvsrem", OBAnd: "bvand", OBOr: "bvor",
	OBXor: "bvxor", OBNot: "bvnot", ONeg: "bvneg", OShl: "bvshl", OLshr: "bvlshr", OAshr: "bvashr", OUlt: "bvult",
	OUle: "bvule", OSlt: "bvslt", OSle: "bvsle", OConcat: "concat", OSelect: "select", OStore: "store"}

type Term struct {
	ID   int
	Op   Op
	S    *Sort
	Args []*Term
	Val  uint64
	Name string
	I1   int
	I2   int
	// flags for region classification (see mem.go)
	Low bool   // OVar: region variable known to be < FreshBase; or initial-heap array variable
	Ep  uint32 // OVar: allocation epoch at creation
}

type Ctx struct {
	tab   map[string]*Term
	terms []*Term
	nvar  int
	// UF declarations: name -> (arg sorts, result sort)
	UFs           map[string]*UFDecl
	Epoch         uint32          // current allocation epoch (number of fresh regions handed out)
	localDistinct map[[2]int]bool // region pairs known distinct in the query being built
	epochMemo     map[*Term]uint32
}

type UFDecl struct {
	Name string
	Args []*Sort
	Res  *Sort
}

func NewCtx() *Ctx { return &Ctx{tab: map[string]*Term{}, UFs: map[string]*UFDecl{}} }

func (c *Ctx) mk(op Op, s *Sort, args []*Term, val uint64, name string, i1, i2 int) *Term {
	var sb strings.Builder
	fmt.Fprintf(&sb, "%d|%s|%d|%s|%d|%d", op, s.String(), val, name, i1, i2)
	for _, a := range args {
		fmt.Fprintf(&sb, "|%d", a.ID)
	}
	k := sb.String()
	if t, ok := c.tab[k]; ok {
		return t
	}
	t := &Term{ID: len(c.terms) + 1, Op: op, S: s, Args: args, Val: val, Name: name, I1: i1, I2: i2}
	c.tab[k] = t
	c.terms = append(c.terms, t)
	return t
}

func mask(w int) uint64 {
	if w >= 64 {
		return ^uint64(0)
	}
	return (uint64(1) << uint(w)) - 1
}

func (c *Ctx) True() *Term  { return c.mk(OConst, BoolSort(), nil, 1, "", 0, 0) }
func (c *Ctx) False() *Term { return c.mk(OConst, BoolSort(), nil, 0, "", 0, 0) }
func (c *Ctx) Bool(b bool) *Term {
	if b {
		return c.True()
	}
	return c.False()
}
func (c *Ctx) Const(w int, v uint64) *Term { return c.mk(OConst, BV(w), nil, v&mask(w), "", 0, 0) }

// Var creates a fresh-named variable (the name is made unique by the caller or by FreshVar).
func (c *Ctx) Var(name string, s *Sort) *Term { return c.mk(OVar, s, nil, 0, name, 0, 0) }
func (c *Ctx) FreshVar(prefix string, s *Sort) *Term {
	c.nvar++
	t := c.Var(fmt.Sprintf("%s!%d", sanitize(prefix), c.nvar), s)
	t.Ep = c.Epoch
	return t
}
func (c *Ctx) FreshLowVar(prefix string, s *Sort) *Term {
	c.nvar++
	t := c.mk(OVar, s, nil, 0, fmt.Sprintf("%s!%d", sanitize(prefix), c.nvar), 1, 0)
	t.Low = true
	return t
}

func sanitize(s string) string {
	var sb strings.Builder
	for _, r := range s {
		if r >= 'a' && r <= 'z' || r >= 'A' && r <= 'Z' || r >= '0' && r <= '9' || r == '_' || r == '.' {
			sb.WriteRune(r)
		} else {
			sb.WriteByte('_')
		}
	}
	return sb.String()
}

func (t *Term) IsConst() bool { return t.Op == OConst }
func (t *Term) IsTrue() bool  { return t.Op == OConst && t.S.K == SBool && t.Val == 1 }
func (t *Term) IsFalse() bool { return t.Op == OConst && t.S.K == SBool && t.Val == 0 }

func sx(v uint64, w int) int64 {
	if w >= 64 {
		return int64(v)
	}
	if v&(1<<uint(w-1)) != 0 {
		return int64(v | ^mask(w))
	}
	return int64(v)
}

// ---------------------------------------------------------------------------------------------
// Boolean constructors

func (c *Ctx) Not(a *Term) *Term {
	if a.IsConst() {
		return c.Bool(a.Val == 0)
	}
	if a.Op == ONot {
		return a.Args[0]
	}
	return c.mk(ONot, BoolSort(), []*Term{a}, 0, "", 0, 0)
}

func (c *Ctx) And(as ...*Term) *Term {
	var out []*Term
	seen := map[int]bool{}
	for _, a := range as {
		if a.IsFalse() {
			return a
		}
		if a.IsTrue() {
			continue
		}
		if a.Op == OAnd {
			for _, b := range a.Args {
				if !seen[b.ID] {
					seen[b.ID] = true
					out = append(out, b)
				}
			}
			continue
		}
		if !seen[a.ID] {
			seen[a.ID] = true
			out = append(out, a)
		}
	}
	for _, a := range out {
		if a.Op == ONot && seen[a.Args[0].ID] {
			return c.False()
		}
	}
	switch len(out) {
	case 0:
		return c.True()
	case 1:
		return out[0]
	}
	return c.mk(OAnd, BoolSort(), out, 0, "", 0, 0)
}

func (c *Ctx) Or(as ...*Term) *Term {
	var out []*Term
	seen := map[int]bool{}
	for _, a := range as {
		if a.IsTrue() {
			return a
		}
		if a.IsFalse() {
			continue
		}
		if a.Op == OOr {
			for _, b := range a.Args {
				if !seen[b.ID] {
					seen[b.ID] = true
					out = append(out, b)
				}
			}
			continue
		}
		if !seen[a.ID] {
			seen[a.ID] = true
			out = append(out, a)
		}
	}
	for _, a := range out {
		if a.Op == ONot && seen[a.Args[0].ID] {
			return c.True()
		}
	}
	switch len(out) {
	case 0:
		return c.False()
	case 1:
		return out[0]
	}
	return c.mk(OOr, BoolSort(), out, 0, "", 0, 0)
}

func (c *Ctx) Implies(a, b *Term) *Term { return c.Or(c.Not(a), b) }
func (c *Ctx) Iff(a, b *Term) *Term     { return c.Eq(a, b) }

func (c *Ctx) Eq(a, b *Term) *Term {
	if a.S != b.S {
		panic(fmt.Sprintf("Eq sort mismatch %s vs %s (%s, %s)", a.S, b.S, c.Show(a), c.Show(b)))
	}
	if a == b {
		return c.True()
	}
	if a.IsConst() && b.IsConst() {
		return c.Bool(a.Val == b.Val)
	}
	if a.S.K == SBool {
		if a.IsTrue() {
			return b
		}
		if b.IsTrue() {
			return a
		}
		if a.IsFalse() {
			return c.Not(b)
		}
		if b.IsFalse() {
			return c.Not(a)
		}
	}
	if a.S.K == SBV {
		// zext(x) == k  <=>  x == k' (or false when k does not fit): keeps case assumptions and the code's own
		// narrow comparisons the same term
		if a.Op == OZext && b.IsConst() {
			w := a.Args[0].S.W
			if b.Val > mask(w) {
				return c.False()
			}
			return c.Eq(a.Args[0], c.Const(w, b.Val))
		}
		if b.Op == OZext && a.IsConst() {
			w := b.Args[0].S.W
			if a.Val > mask(w) {
				return c.False()
			}
			return c.Eq(b.Args[0], c.Const(w, a.Val))
		}
		// (x + c1) == (x + c2)
		ba, ca := c.splitAdd(a)
		bb, cb := c.splitAdd(b)
		if ba == bb && ba != nil {
			return c.Bool(ca == cb)
		}
		// region classes: fresh const vs low var
		if a.S.W == RgnW && c.regionsDistinct(a, b) {
			return c.False()
		}
		// ite(c, k1, k2) == k
		if a.Op == OIte && b.IsConst() && a.Args[1].IsConst() && a.Args[2].IsConst() {
			return c.Ite(a.Args[0], c.Eq(a.Args[1], b), c.Eq(a.Args[2], b))
		}
		if b.Op == OIte && a.IsConst() && b.Args[1].IsConst() && b.Args[2].IsConst() {
			return c.Ite(b.Args[0], c.Eq(b.Args[1], a), c.Eq(b.Args[2], a))
		}
	}
	if a.ID > b.ID {
		a, b = b, a
	}
	return c.mk(OEq, BoolSort(), []*Term{a, b}, 0, "", 0, 0)
}

func (c *Ctx) Ne(a, b *Term) *Term { return c.Not(c.Eq(a, b)) }

func (c *Ctx) Ite(cond, a, b *Term) *Term {
	if a.S != b.S {
		panic(fmt.Sprintf("Ite sort mismatch %s vs %s", a.S, b.S))
	}
	if cond.IsTrue() {
		return a
	}
	if cond.IsFalse() {
		return b
	}
	if a == b {
		return a
	}
	if a.S.K == SBool {
		if a.IsTrue() && b.IsFalse() {
			return cond
		}
		if a.IsFalse() && b.IsTrue() {
			return c.Not(cond)
		}
		if a.IsTrue() {
			return c.Or(cond, b)
		}
		if b.IsFalse() {
			return c.And(cond, a)
		}
		if a.IsFalse() {
			return c.And(c.Not(cond), b)
		}
		if b.IsTrue() {
			return c.Or(c.Not(cond), a)
		}
	}
	return c.mk(OIte, a.S, []*Term{cond, a, b}, 0, "", 0, 0)
}

// ---------------------------------------------------------------------------------------------
// Bit-vector constructors

// Linear normal form: sums are n-ary OAdd nodes whose arguments are coefficient*atom terms sorted by
// atom id, with an optional trailing constant. This makes offset arithmetic canonical, so that
// (o + k) + base and base + (k + o) are the same term and base+c1 / base+c2 are syntactically distinct.

// splitAdd decomposes t as base + const (base == nil when t is constant).
func (c *Ctx) splitAdd(t *Term) (*Term, uint64) {
	if t.Op == OConst {
		return nil, t.Val
	}
	if t.Op == OAdd {
		last := t.Args[len(t.Args)-1]
		if last.Op == OConst {
			rest := t.Args[:len(t.Args)-1]
			if len(rest) == 1 {
				return rest[0], last.Val
			}
			return c.mk(OAdd, t.S, rest, 0, "", 0, 0), last.Val
		}
	}
	return t, 0
}

type linTerm struct {
	atom *Term
	coef uint64
}

// linearize accumulates coef*t into (m, k).
func (c *Ctx) linearize(t *Term, coef uint64, m map[*Term]uint64, k *uint64) {
	w := t.S.W
	switch t.Op {
	case OConst:
		*k = (*k + coef*t.Val) & mask(w)
	case OAdd:
		for _, a := range t.Args {
			c.linearize(a, coef, m, k)
		}
	case OSub:
		c.linearize(t.Args[0], coef, m, k)
		c.linearize(t.Args[1], (-coef)&mask(w), m, k)
	case ONeg:
		c.linearize(t.Args[0], (-coef)&mask(w), m, k)
	case OMul:
		if t.Args[1].Op == OConst {
			c.linearize(t.Args[0], (coef*t.Args[1].Val)&mask(w), m, k)
			return
		}
		m[t] = (m[t] + coef) & mask(w)
	default:
		m[t] = (m[t] + coef) & mask(w)
	}
}

func (c *Ctx) fromLinear(s *Sort, m map[*Term]uint64, k uint64) *Term {
	w := s.W
	var ts []linTerm
	for a, co := range m {
		if co&mask(w) != 0 {
			ts = append(ts, linTerm{a, co & mask(w)})
		}
	}
	sort.Slice(ts, func(i, j int) bool { return ts[i].atom.ID < ts[j].atom.ID })
	var args []*Term
	for _, lt := range ts {
		switch lt.coef {
		case 1:
			args = append(args, lt.atom)
		case mask(w):
			args = append(args, c.mk(ONeg, s, []*Term{lt.atom}, 0, "", 0, 0))
		default:
			args = append(args, c.mk(OMul, s, []*Term{lt.atom, c.Const(w, lt.coef)}, 0, "", 0, 0))
		}
	}
	k &= mask(w)
	if len(args) == 0 {
		return c.Const(w, k)
	}
	if k != 0 {
		args = append(args, c.Const(w, k))
	}
	if len(args) == 1 {
		return args[0]
	}
	return c.mk(OAdd, s, args, 0, "", 0, 0)
}

func (c *Ctx) Add(a, b *Term) *Term {
	if a.S != b.S {
		panic(fmt.Sprintf("Add sort mismatch %s %s: %s + %s", a.S, b.S, c.Show(a), c.Show(b)))
	}
	m := map[*Term]uint64{}
	var k uint64
	c.linearize(a, 1, m, &k)
	c.linearize(b, 1, m, &k)
	return c.fromLinear(a.S, m, k)
}

func (c *Ctx) Sub(a, b *Term) *Term {
	if a.S != b.S {
		panic(fmt.Sprintf("Sub sort mismatch: %s - %s", c.Show(a), c.Show(b)))
	}
	m := map[*Term]uint64{}
	var k uint64
	c.linearize(a, 1, m, &k)
	c.linearize(b, mask(a.S.W), m, &k)
	return c.fromLinear(a.S, m, k)
}

func (c *Ctx) Neg(a *Term) *Term { return c.Sub(c.Const(a.S.W, 0), a) }

func (c *Ctx) Mul(a, b *Term) *Term {
	w := a.S.W
	if a.S != b.S {
		panic(fmt.Sprintf("Mul sort mismatch: %s * %s", c.Show(a), c.Show(b)))
	}
	if a.IsConst() && b.IsConst() {
		return c.Const(w, a.Val*b.Val)
	}
	if a.IsConst() {
		a, b = b, a
	}
	if b.IsConst() {
		m := map[*Term]uint64{}
		var k uint64
		c.linearize(a, b.Val, m, &k)
		return c.fromLinear(a.S, m, k)
	}
	// x * ite(c, k1, k2) with constant leaves: distribute, so that only constant multipliers remain
	if constLeafIte(b, 0) {
		return c.mulIte(a, b)
	}
	if constLeafIte(a, 0) {
		return c.mulIte(b, a)
	}
	if a.ID > b.ID {
		a, b = b, a
	}
	return c.mk(OMul, a.S, []*Term{a, b}, 0, "", 0, 0)
}

func constLeafIte(t *Term, depth int) bool {
	if t.Op == OConst {
		return depth > 0
	}
	if t.Op == OIte && depth < 24 {
		return constLeafIte(t.Args[1], depth+1) && constLeafIte(t.Args[2], depth+1)
	}
	if t.Op == OAdd && depth < 24 {
		// sums of const-leaf ites (e.g. ksz + vsz)
		for _, a := range t.Args {
			if !constLeafIte(a, depth+1) {
				return false
			}
		}
		return true
	}
	return false
}

func (c *Ctx) mulIte(x, t *Term) *Term {
	switch t.Op {
	case OConst:
		return c.Mul(x, t)
	case OIte:
		return c.Ite(t.Args[0], c.mulIte(x, t.Args[1]), c.mulIte(x, t.Args[2]))
	case OAdd:
		r := c.Const(x.S.W, 0)
		for _, a := range t.Args {
			r = c.Add(r, c.mulIte(x, a))
		}
		return r
	}
	return c.mk(OMul, x.S, []*Term{x, t}, 0, "", 0, 0)
}

func (c *Ctx) bin(op Op, a, b *Term) *Term {
	if a.S != b.S {
		panic(fmt.Sprintf("binop %s sort mismatch: %s , %s", opName[op], c.Show(a), c.Show(b)))
	}
	return c.mk(op, a.S, []*Term{a, b}, 0, "", 0, 0)
}

func (c *Ctx) UDiv(a, b *Term) *Term {
	if a.IsConst() && b.IsConst() && b.Val != 0 {
		return c.Const(a.S.W, a.Val/b.Val)
	}
	if b.IsConst() && b.Val == 1 {
		return a
	}
	return c.bin(OUDiv, a, b)
}
func (c *Ctx) URem(a, b *Term) *Term {
	if a.IsConst() && b.IsConst() && b.Val != 0 {
		return c.Const(a.S.W, a.Val%b.Val)
	}
	return c.bin(OURem, a, b)
}
func (c *Ctx) SDiv(a, b *Term) *Term {
	w := a.S.W
	if a.IsConst() && b.IsConst() && b.Val != 0 {
		x, y := sx(a.Val, w), sx(b.Val, w)
		if !(y == -1) {
			return c.Const(w, uint64(x/y))
		}
	}
	if b.IsConst() && b.Val == 1 {
		return a
	}
	return c.bin(OSDiv, a, b)
}
func (c *Ctx) SRem(a, b *Term) *Term {
	w := a.S.W
	if a.IsConst() && b.IsConst() && b.Val != 0 {
		x, y := sx(a.Val, w), sx(b.Val, w)
		if !(y == -1) {
			return c.Const(w, uint64(x%y))
		}
	}
	return c.bin(OSRem, a, b)
}

func (c *Ctx) BAnd(a, b *Term) *Term {
	w := a.S.W
	if a.IsConst() && b.IsConst() {
		return c.Const(w, a.Val&b.Val)
	}
	if a.IsConst() {
		a, b = b, a
	}
	if b.IsConst() {
		if b.Val == 0 {
			return b
		}
		if b.Val == mask(w) {
			return a
		}
		// zext(x, k) & m where m covers all low bits of x
		if a.Op == OZext {
			iw := a.Args[0].S.W
			if b.Val&mask(iw) == mask(iw) {
				return a
			}
		}
	}
	if a == b {
		return a
	}
	return c.bin(OBAnd, a, b)
}
func (c *Ctx) BOr(a, b *Term) *Term {
	w := a.S.W
	if a.IsConst() && b.IsConst() {
		return c.Const(w, a.Val|b.Val)
	}
	if a.IsConst() {
		a, b = b, a
	}
	if b.IsConst() {
		if b.Val == 0 {
			return a
		}
		if b.Val == mask(w) {
			return b
		}
	}
	if a == b {
		return a
	}
	return c.bin(OBOr, a, b)
}
func (c *Ctx) BXor(a, b *Term) *Term {
	w := a.S.W
	if a.IsConst() && b.IsConst() {
		return c.Const(w, a.Val^b.Val)
	}
	if a.IsConst() {
		a, b = b, a
	}
	if b.IsConst() && b.Val == 0 {
		return a
	}
	if a == b {
		return c.Const(w, 0)
	}
	return c.bin(OBXor, a, b)
}
func (c *Ctx) BNot(a *Term) *Term {
	if a.IsConst() {
		return c.Const(a.S.W, ^a.Val)
	}
	if a.Op == OBNot {
		return a.Args[0]
	}
	return c.mk(OBNot, a.S, []*Term{a}, 0, "", 0, 0)
}

func (c *Ctx) Shl(a, b *Term) *Term {
	w := a.S.W
	if b.IsConst() {
		if b.Val == 0 {
			return a
		}
		if b.Val >= uint64(w) {
			return c.Const(w, 0)
		}
		if a.IsConst() {
			return c.Const(w, a.Val<<b.Val)
		}
	}
	return c.bin(OShl, a, b)
}
func (c *Ctx) Lshr(a, b *Term) *Term {
	w := a.S.W
	if b.IsConst() {
		if b.Val == 0 {
			return a
		}
		if b.Val >= uint64(w) {
			return c.Const(w, 0)
		}
		if a.IsConst() {
			return c.Const(w, a.Val>>b.Val)
		}
	}
	return c.bin(OLshr, a, b)
}
func (c *Ctx) Ashr(a, b *Term) *Term {
	w := a.S.W
	if b.IsConst() {
		if b.Val == 0 {
			return a
		}
		if a.IsConst() {
			sh := b.Val
			if sh >= uint64(w) {
				sh = uint64(w - 1)
			}
			return c.Const(w, uint64(sx(a.Val, w)>>sh))
		}
	}
	return c.bin(OAshr, a, b)
}

func (c *Ctx) Ult(a, b *Term) *Term {
	if a.S != b.S {
		panic(fmt.Sprintf("Ult sort mismatch: %s , %s", c.Show(a), c.Show(b)))
	}
	if a == b {
		return c.False()
	}
	if a.IsConst() && b.IsConst() {
		return c.Bool(a.Val < b.Val)
	}
	if b.IsConst() && b.Val == 0 {
		return c.False()
	}
	if a.S.W == RgnW && b.IsConst() && b.Val == FreshBase {
		if isLowRegion(a) {
			return c.True()
		}
		if isFreshRegion(a) {
			return c.False()
		}
	}
	if a.Op == OZext && b.IsConst() && b.Val > mask(a.Args[0].S.W) {
		return c.True()
	}
	return c.mk(OUlt, BoolSort(), []*Term{a, b}, 0, "", 0, 0)
}
func (c *Ctx) Ule(a, b *Term) *Term {
	if a == b {
		return c.True()
	}
	if a.IsConst() && b.IsConst() {
		return c.Bool(a.Val <= b.Val)
	}
	if a.IsConst() && a.Val == 0 {
		return c.True()
	}
	if a.Op == OZext && b.IsConst() && b.Val >= mask(a.Args[0].S.W) {
		return c.True()
	}
	return c.Not(c.Ult(b, a))
}
func (c *Ctx) Ugt(a, b *Term) *Term { return c.Ult(b, a) }
func (c *Ctx) Uge(a, b *Term) *Term { return c.Ule(b, a) }
func (c *Ctx) Slt(a, b *Term) *Term {
	if a.S != b.S {
		panic(fmt.Sprintf("Slt sort mismatch: %s , %s", c.Show(a), c.Show(b)))
	}
	if a == b {
		return c.False()
	}
	w := a.S.W
	if a.IsConst() && b.IsConst() {
		return c.Bool(sx(a.Val, w) < sx(b.Val, w))
	}
	// zext(x) <s const  where zext adds at least one bit
	if a.Op == OZext && a.I1 > 0 && b.IsConst() {
		bv := sx(b.Val, w)
		if bv <= 0 {
			return c.False()
		}
		if uint64(bv) > mask(a.Args[0].S.W) {
			return c.True()
		}
	}
	if b.Op == OZext && b.I1 > 0 && a.IsConst() {
		av := sx(a.Val, w)
		if av < 0 {
			return c.True()
		}
	}
	return c.mk(OSlt, BoolSort(), []*Term{a, b}, 0, "", 0, 0)
}
func (c *Ctx) Sle(a, b *Term) *Term {
	if a == b {
		return c.True()
	}
	return c.Not(c.Slt(b, a))
}
func (c *Ctx) Sgt(a, b *Term) *Term { return c.Slt(b, a) }
func (c *Ctx) Sge(a, b *Term) *Term { return c.Sle(b, a) }

func (c *Ctx) Extract(hi, lo int, a *Term) *Term {
	w := hi - lo + 1
	if lo == 0 && w == a.S.W {
		return a
	}
	if a.IsConst() {
		return c.Const(w, a.Val>>uint(lo))
	}
	if (a.Op == OZext || a.Op == OSext) && lo == 0 {
		iw := a.Args[0].S.W
		if w == iw {
			return a.Args[0]
		}
		if w < iw {
			return c.Extract(hi, 0, a.Args[0])
		}
		if a.Op == OZext {
			return c.Zext(a.Args[0], w-iw)
		}
		return c.Sext(a.Args[0], w-iw)
	}
	if a.Op == OExtract {
		return c.Extract(hi+a.I2, lo+a.I2, a.Args[0])
	}
	// low bits of add/sub/and/or/xor/mul distribute
	if lo == 0 && (a.Op == OBAnd || a.Op == OBOr || a.Op == OBXor) {
		x, y := c.Extract(hi, 0, a.Args[0]), c.Extract(hi, 0, a.Args[1])
		switch a.Op {
		case OBAnd:
			return c.BAnd(x, y)
		case OBOr:
			return c.BOr(x, y)
		default:
			return c.BXor(x, y)
		}
	}
	return c.mk(OExtract, BV(w), []*Term{a}, 0, "", hi, lo)
}
func (c *Ctx) Zext(a *Term, extra int) *Term {
	if extra == 0 {
		return a
	}
	if a.IsConst() {
		return c.Const(a.S.W+extra, a.Val)
	}
	if a.Op == OZext {
		return c.Zext(a.Args[0], a.I1+extra)
	}
	return c.mk(OZext, BV(a.S.W+extra), []*Term{a}, 0, "", extra, 0)
}
func (c *Ctx) Sext(a *Term, extra int) *Term {
	if extra == 0 {
		return a
	}
	if a.IsConst() {
		return c.Const(a.S.W+extra, uint64(sx(a.Val, a.S.W)))
	}
	if a.Op == OSext {
		return c.Sext(a.Args[0], a.I1+extra)
	}
	if a.Op == OZext && a.I1 > 0 {
		return c.Zext(a.Args[0], a.I1+extra)
	}
	return c.mk(OSext, BV(a.S.W+extra), []*Term{a}, 0, "", extra, 0)
}

// Resize converts a to width w with sign or zero extension / truncation.
func (c *Ctx) Resize(a *Term, w int, signed bool) *Term {
	switch {
	case a.S.W == w:
		return a
	case a.S.W > w:
		return c.Extract(w-1, 0, a)
	case signed:
		return c.Sext(a, w-a.S.W)
	default:
		return c.Zext(a, w-a.S.W)
	}
}

func (c *Ctx) Concat(a, b *Term) *Term {
	if a.IsConst() && b.IsConst() && a.S.W+b.S.W <= 64 {
		return c.Const(a.S.W+b.S.W, a.Val<<uint(b.S.W)|b.Val)
	}
	if a.IsConst() && a.Val == 0 {
		return c.Zext(b, a.S.W)
	}
	return c.mk(OConcat, BV(a.S.W+b.S.W), []*Term{a, b}, 0, "", 0, 0)
}

// ---------------------------------------------------------------------------------------------
// Arrays

func (c *Ctx) ConstArr(s *Sort, v *Term) *Term {
	return c.mk(OConstArr, s, []*Term{v}, 0, "", 0, 0)
}

// distinct reports whether a and b are syntactically known to differ.
func (c *Ctx) distinct(a, b *Term) bool {
	if a == b {
		return false
	}
	if a.IsConst() && b.IsConst() {
		return a.Val != b.Val
	}
	if a.S.K == SBV {
		ba, ca := c.splitAdd(a)
		bb, cb := c.splitAdd(b)
		if ba == bb && ba != nil && ca != cb {
			return true
		}
		if a.S.W == RgnW && c.regionsDistinct(a, b) {
			return true
		}
	}
	return false
}

func (c *Ctx) Select(a, i *Term) *Term {
	if a.S.K != SArr || a.S.I != i.S {
		panic(fmt.Sprintf("Select sort mismatch: %s [%s]", a.S, i.S))
	}
	for {
		switch a.Op {
		case OStore:
			if a.Args[1] == i {
				return a.Args[2]
			}
			if c.distinct(a.Args[1], i) {
				a = a.Args[0]
				continue
			}
		case OConstArr:
			return a.Args[0]
		case OIte:
			// select(ite(c,A,B), i) => ite(c, A[i], B[i])
			return c.Ite(a.Args[0], c.Select(a.Args[1], i), c.Select(a.Args[2], i))
		}
		break
	}
	if i.Op == OIte && a.Op == OStore {
		return c.Ite(i.Args[0], c.Select(a, i.Args[1]), c.Select(a, i.Args[2]))
	}
	return c.mk(OSelect, a.S.E, []*Term{a, i}, 0, "", 0, 0)
}

func (c *Ctx) Store(a, i, v *Term) *Term {
	if a.S.K != SArr || a.S.I != i.S || a.S.E != v.S {
		panic(fmt.Sprintf("Store sort mismatch: %s [%s] := %s", a.S, i.S, v.S))
	}
	// store(store(a,i,x),i,v) => store(a,i,v)
	if a.Op == OStore && a.Args[1] == i {
		return c.Store(a.Args[0], i, v)
	}
	// store(a, i, select(a,i)) => a
	if v.Op == OSelect && v.Args[0] == a && v.Args[1] == i {
		return a
	}
	return c.mk(OStore, a.S, []*Term{a, i, v}, 0, "", 0, 0)
}

func (c *Ctx) App(name string, res *Sort, args ...*Term) *Term {
	d, ok := c.UFs[name]
	if !ok {
		d = &UFDecl{Name: name, Res: res}
		for _, a := range args {
			d.Args = append(d.Args, a.S)
		}
		c.UFs[name] = d
	}
	return c.mk(OApp, res, args, 0, name, 0, 0)
}

// ---------------------------------------------------------------------------------------------
// Substitution

func (c *Ctx) Subst(t *Term, m map[*Term]*Term) *Term {
	memo := map[*Term]*Term{}
	var rec func(t *Term) *Term
	rec = func(t *Term) *Term {
		if r, ok := m[t]; ok {
			return r
		}
		if len(t.Args) == 0 {
			return t
		}
		if r, ok := memo[t]; ok {
			return r
		}
		args := make([]*Term, len(t.Args))
		ch := false
		for i, a := range t.Args {
			args[i] = rec(a)
			if args[i] != a {
				ch = true
			}
		}
		r := t
		if ch {
			r = c.rebuild(t, args)
		}
		memo[t] = r
		return r
	}
	return rec(t)
}

func (c *Ctx) rebuild(t *Term, a []*Term) *Term {
	switch t.Op {
	case ONot:
		return c.Not(a[0])
	case OAnd:
		return c.And(a...)
	case OOr:
		return c.Or(a...)
	case OEq:
		return c.Eq(a[0], a[1])
	case OIte:
		return c.Ite(a[0], a[1], a[2])
	case OAdd:
		r := a[0]
		for _, x := range a[1:] {
			r = c.Add(r, x)
		}
		return r
	case OSub:
		return c.Sub(a[0], a[1])
	case OMul:
		return c.Mul(a[0], a[1])
	case OUDiv:
		return c.UDiv(a[0], a[1])
	case OURem:
		return c.URem(a[0], a[1])
	case OSDiv:
		return c.SDiv(a[0], a[1])
	case OSRem:
		return c.SRem(a[0], a[1])
	case OBAnd:
		return c.BAnd(a[0], a[1])
	case OBOr:
		return c.BOr(a[0], a[1])
	case OBXor:
		return c.BXor(a[0], a[1])
	case OBNot:
		return c.BNot(a[0])
	case ONeg:
		return c.Neg(a[0])
	case OShl:
		return c.Shl(a[0], a[1])
	case OLshr:
		return c.Lshr(a[0], a[1])
	case OAshr:
		return c.Ashr(a[0], a[1])
	case OUlt:
		return c.Ult(a[0], a[1])
	case OSlt:
		return c.Slt(a[0], a[1])
	case OConcat:
		return c.Concat(a[0], a[1])
	case OExtract:
		return c.Extract(t.I1, t.I2, a[0])
	case OZext:
		return c.Zext(a[0], t.I1)
	case OSext:
		return c.Sext(a[0], t.I1)
	case OSelect:
		return c.Select(a[0], a[1])
	case OStore:
		return c.Store(a[0], a[1], a[2])
	case OConstArr:
		return c.ConstArr(t.S, a[0])
	case OApp:
		return c.App(t.Name, t.S, a...)
	}
	panic("rebuild: op")
}

// Rebuild re-applies the simplifying constructors bottom-up over the whole term (after replacing the
// keys of m), so that knowledge installed in the context (localDistinct) takes effect.
func (c *Ctx) Rebuild(t *Term, m map[*Term]*Term) *Term {
	return c.RebuildMemo(t, m, map[*Term]*Term{})
}

// RebuildMemo is Rebuild with a memo table the caller may share between calls that use the SAME map m
// (and the same installed knowledge).
func (c *Ctx) RebuildMemo(t *Term, m map[*Term]*Term, memo map[*Term]*Term) *Term {
	var rec func(t *Term) *Term
	rec = func(t *Term) *Term {
		if r, ok := m[t]; ok {
			return r
		}
		if len(t.Args) == 0 {
			return t
		}
		if r, ok := memo[t]; ok {
			return r
		}
		args := make([]*Term, len(t.Args))
		for i, a := range t.Args {
			args[i] = rec(a)
		}
		r := c.rebuild(t, args)
		memo[t] = r
		return r
	}
	return rec(t)
}

// ---------------------------------------------------------------------------------------------
// Traversal helpers

func Walk(roots []*Term, f func(*Term)) {
	seen := map[*Term]bool{}
	var rec func(*Term)
	rec = func(t *Term) {
		if seen[t] {
			return
		}
		seen[t] = true
		for _, a := range t.Args {
			rec(a)
		}
		f(t)
	}
	for _, r := range roots {
		rec(r)
	}
}

// Mentions reports whether t contains any term of the set.
func Mentions(t *Term, set map[*Term]bool) bool {
	found := false
	Walk([]*Term{t}, func(x *Term) {
		if set[x] {
			found = true
		}
	})
	return found
}

// ---------------------------------------------------------------------------------------------
// Printing

func (c *Ctx) Show(t *Term) string {
	var sb strings.Builder
	c.show(&sb, t, 0)
	return sb.String()
}

func (c *Ctx) show(sb *strings.Builder, t *Term, depth int) {
	if depth > 12 {
		sb.WriteString("…")
		return
	}
	switch t.Op {
	case OConst:
		if t.S.K == SBool {
			if t.Val == 1 {
				sb.WriteString("true")
			} else {
				sb.WriteString("false")
			}
			return
		}
		fmt.Fprintf(sb, "%d:%d", t.Val, t.S.W)
	case OVar:
		sb.WriteString(t.Name)
	case OExtract:
		fmt.Fprintf(sb, "(extract[%d:%d] ", t.I1, t.I2)
		c.show(sb, t.Args[0], depth+1)
		sb.WriteString(")")
	case OZext, OSext:
		n := "zext"
		if t.Op == OSext {
			n = "sext"
		}
		fmt.Fprintf(sb, "(%s%d ", n, t.I1)
		c.show(sb, t.Args[0], depth+1)
		sb.WriteString(")")
	case OApp:
		sb.WriteString("(" + t.Name)
		for _, a := range t.Args {
			sb.WriteString(" ")
			c.show(sb, a, depth+1)
		}
		sb.WriteString(")")
	case OConstArr:
		sb.WriteString("(constarr ")
		c.show(sb, t.Args[0], depth+1)
		sb.WriteString(")")
	default:
		sb.WriteString("(" + opName[t.Op])
		for _, a := range t.Args {
			sb.WriteString(" ")
			c.show(sb, a, depth+1)
		}
		sb.WriteString(")")
	}
}

func smtConst(t *Term) string {
	if t.S.K == SBool {
		if t.Val == 1 {
			return "true"
		}
		return "false"
	}
	w := t.S.W
	if w%4 == 0 {
		return fmt.Sprintf("#x%0*x", w/4, t.Val)
	}
	return fmt.Sprintf("#b%0*b", w, t.Val)
}

func smtName(n string) string { return "|" + n + "|" }

// EmitSMT writes a standalone script that is unsat iff (assumptions => goal) is valid.
// Every shared non-leaf node becomes a define-fun so that the output is linear in DAG size.
func (c *Ctx) EmitSMT(assumps []*Term, goal *Term, header string, wantModel bool, getValues []*Term) string {
	var sb strings.Builder
	sb.WriteString(header)
	sb.WriteString("(set-option :produce-models true)\n(set-logic QF_AUFBV)\n")
	roots := append([]*Term{}, assumps...)
	if goal != nil {
		roots = append(roots, goal)
	}
	roots = append(roots, getValues...)
	// collect
	var order []*Term
	refs := map[*Term]int{}
	Walk(roots, func(t *Term) {
		order = append(order, t)
		for _, a := range t.Args {
			refs[a]++
		}
	})
	ufs := map[string]bool{}
	for _, t := range order {
		if t.Op == OVar {
			fmt.Fprintf(&sb, "(declare-const %s %s)\n", smtName(t.Name), t.S)
		}
		if t.Op == OApp && !ufs[t.Name] {
			ufs[t.Name] = true
			d := c.UFs[t.Name]
			var as []string
			for _, s := range d.Args {
				as = append(as, s.String())
			}
			fmt.Fprintf(&sb, "(declare-fun %s (%s) %s)\n", smtName(t.Name), strings.Join(as, " "), d.Res)
		}
	}
	names := map[*Term]string{}
	var expr func(t *Term) string
	ref := func(t *Term) string {
		if n, ok := names[t]; ok {
			return n
		}
		return expr(t)
	}
	expr = func(t *Term) string {
		switch t.Op {
		case OConst:
			return smtConst(t)
		case OVar:
			return smtName(t.Name)
		case OExtract:
			return fmt.Sprintf("((_ extract %d %d) %s)", t.I1, t.I2, ref(t.Args[0]))
		case OZext:
			return fmt.Sprintf("((_ zero_extend %d) %s)", t.I1, ref(t.Args[0]))
		case OSext:
			return fmt.Sprintf("((_ sign_extend %d) %s)", t.I1, ref(t.Args[0]))
		case OConstArr:
			return fmt.Sprintf("((as const %s) %s)", t.S, ref(t.Args[0]))
		case OApp:
			if len(t.Args) == 0 {
				return smtName(t.Name)
			}
			var as []string
			for _, a := range t.Args {
				as = append(as, ref(a))
			}
			return "(" + smtName(t.Name) + " " + strings.Join(as, " ") + ")"
		}
		var as []string
		for _, a := range t.Args {
			as = append(as, ref(a))
		}
		if t.Op == OAdd && len(as) > 2 {
			r := as[0]
			for _, x := range as[1:] {
				r = "(bvadd " + r + " " + x + ")"
			}
			return r
		}
		return "(" + opName[t.Op] + " " + strings.Join(as, " ") + ")"
	}
	for _, t := range order {
		if len(t.Args) == 0 {
			continue
		}
		if refs[t] > 1 || len(t.Args) > 0 && depthAtLeast(t, 6) {
			n := fmt.Sprintf("n%d", t.ID)
			fmt.Fprintf(&sb, "(define-fun %s () %s %s)\n", n, t.S, expr(t))
			names[t] = n
		}
	}
	// region classes known to the simplifier are stated for the solver as well
	for _, t := range order {
		if t.S.K == SBV && t.S.W == RgnW && t.Op != OConst && t.Op != OIte {
			if isLowRegion(t) {
				fmt.Fprintf(&sb, "(assert (bvult %s #x%06x))\n", ref(t), FreshBase)
			} else {
				// a region term cannot denote an allocation made after its leaves came into existence
				fmt.Fprintf(&sb, "(assert (bvule %s #x%06x))\n", ref(t), FreshBase+uint64(c.epochOf(t)))
			}
		}
	}
	seenA := map[*Term]bool{}
	for _, a := range assumps {
		if seenA[a] {
			continue
		}
		seenA[a] = true
		fmt.Fprintf(&sb, "(assert %s)\n", ref(a))
	}
	if goal != nil {
		fmt.Fprintf(&sb, "(assert (not %s))\n", ref(goal))
	}
	for i, v := range getValues {
		fmt.Fprintf(&sb, "(define-fun gv%d () %s %s)\n", i, v.S, ref(v))
	}
	sb.WriteString("(check-sat)\n")
	if wantModel && len(getValues) > 0 {
		var vs []string
		for i := range getValues {
			vs = append(vs, fmt.Sprintf("gv%d", i))
		}
		fmt.Fprintf(&sb, "(get-value (%s))\n", strings.Join(vs, " "))
	}
	return sb.String()
}

func depthAtLeast(t *Term, d int) bool {
	if d == 0 {
		return true
	}
	for _, a := range t.Args {
		if depthAtLeast(a, d-1) {
			return true
		}
	}
	return false
}

// ---------------------------------------------------------------------------------------------
// Region classes (memory model §3.3): fresh allocations are concrete constants >= FreshBase,
// parameters and initial-heap pointers are symbolic and < FreshBase.

const (
	RgnW      = 24 // width of region identifiers (no Go integer type has this width)
	TypW      = 20 // width of dynamic type identifiers
	FreshBase = 0x800000
)

func isFreshRegion(t *Term) bool {
	return t.Op == OConst && t.S.K == SBV && t.S.W == RgnW && t.Val >= FreshBase
}

// epochOf: the largest allocation epoch among the leaves of t (variables carry the epoch at which
// they were created, fresh-region constants their own number).
func (c *Ctx) epochOf(t *Term) uint32 {
	if c.epochMemo == nil {
		c.epochMemo = map[*Term]uint32{}
	}
	if e, ok := c.epochMemo[t]; ok {
		return e
	}
	var e uint32
	switch {
	case t.Op == OVar:
		e = t.Ep
	case t.Op == OConst:
		if isFreshRegion(t) {
			e = uint32(t.Val - FreshBase)
		}
	default:
		for _, a := range t.Args {
			if x := c.epochOf(a); x > e {
				e = x
			}
		}
	}
	c.epochMemo[t] = e
	return e
}

// regionsDistinct: a and b (region-sorted) are syntactically known to denote different regions.
func (c *Ctx) regionsDistinct(a, b *Term) bool {
	if c.localDistinct != nil && c.localDistinct[[2]int{a.ID, b.ID}] {
		return true
	}
	if isFreshRegion(b) {
		a, b = b, a
	}
	if !isFreshRegion(a) {
		return false
	}
	if isFreshRegion(b) {
		return a.Val != b.Val
	}
	if isLowRegion(b) {
		return true
	}
	return uint64(c.epochOf(b)) < a.Val-FreshBase
}

func isLowRegion(t *Term) bool {
	if t.S.K != SBV || t.S.W != RgnW {
		return false
	}
	if t.Op == OConst {
		return t.Val < FreshBase
	}
	if t.Op == OVar {
		return t.Low
	}
	// pointer loaded from the initial heap: select(select(V, r), o) with V an initial-heap variable
	if t.Op == OSelect && t.Args[0].Op == OSelect && t.Args[0].Args[0].Op == OVar && t.Args[0].Args[0].Low {
		return true
	}
	if t.Op == OIte {
		return isLowRegion(t.Args[1]) && isLowRegion(t.Args[2])
	}
	return false
}

var _ = bits.Len64
var _ = sort.Ints
